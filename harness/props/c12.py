"""C12 - all ways of passing the same arguments are equivalent.

C: (a) map_args / get_delegate of REAL FunctionDefinitions (exec()ed random signatures: hidden parameters
anywhere, defaults, aliases, keyword-only, *args, **kwargs) on random argument tuples and on all spellings
of random assignments, against Model/Resolution.v evaluated inside Coq; (b) the naming convention on random
names against Model/Naming.v; (c) aliases of the generated definitions against an independent camelCase.
O: the registry spelling sweep over the real standard library (every FunctionDefinition of
yaql.create_context(), well-typed argument tuples from a typed corpus, every positional/keyword split point,
every subset of omitted defaults, explicit defaults, as function, as method and through call(name, args,
kwargs)): same result or same error class; method-only never callable as function and vice versa."""
import datetime
import itertools
import random
import re
import signal

import gal
import gen_registry
import resolution_common as rc
import yaql
from yaql.language import conventions, exceptions, expressions, specs, utils, yaqltypes

GEN = ["registry"]
RULE = ("C: random signatures (0-4 visible parameters, hidden engine/context anywhere, defaults, *args, **kwargs, "
        "keyword-only, lazy kinds, typed over the lattice) x random argument tuples and all spellings of random assignments; "
        "non-trivial = the signature has a hidden positional parameter or the call uses a keyword or an empty slot; "
        "O: all definitions of the standard library x typed argument tuples x spellings x call forms; "
        "distinct = distinct (signature, arguments)")
TRUSTED = ["Model/Resolution.v map_args/get_delegate and Model/Naming.v are hand transcriptions; tied by this correspondence",
           "harness/gen_registry.py (introspection of the live registry) and the typed value corpus of the sweep",
           "python's re (\\w, upper) for non-ASCII names is not modelled; the regenerated registry is checked to be ASCII"]
ASSUMPTIONS = ["keyword spellings are not applied to definitions declared no_kwargs (they do not accept keywords by design)",
               "the sweep isolates each definition under its name (registered exclusively in a child context) so that spellings "
               "exercise binding, not the choice between differently named overloads",
               "definitions with MappingRule parameters or type-restricted YaqlExpression parameters are not swept (7 of the registry)",
               "results are compared after canonicalisation (iterators drained up to 60 items, mappings and sets sorted, floats by hex)"]
EXPLANATION = ("proof that binding is a function of the argument each parameter is given (all spellings bind alike) + alias/convention "
               "obligation over the regenerated registry + differential check of map_args/get_delegate against the real ones + "
               "spelling sweep over the real standard library")
ALLOWED_AXIOMS = []

HEADER = "From YV Require Import Model.Resolution Model.Naming."


# ------------------------------------------------------------------------------------------------
# C (a): map_args / get_delegate in isolation
# ------------------------------------------------------------------------------------------------
def gen_raw_arg(rng, ids, allow_skip=True):
    r = rng.random()
    v = rc.gen_value(rng)
    if r < 0.1 and allow_skip:
        return ["skip"]
    if r < 0.45:
        return ["expr", next(ids), v]
    if r < 0.7:
        return ["const", v]
    return ["raw", v]


def gen_binding_call(rng, fun):
    """arguments + keyword dictionary for fd.map_args / fd.get_delegate (any mixture)"""
    ids = itertools.count(1)
    vis = [p for p in fun["pos"] if p[1] != ["H"]]
    r = rng.random()
    npos = len(vis) if r < 0.4 else rng.randrange(0, len(vis) + 1) if r < 0.85 else len(vis) + rng.choice([1, 2])
    args = [gen_raw_arg(rng, ids) for _ in range(npos)]
    kw = []
    names = [rc.palias(p) for p in vis[npos:]] + [rc.palias(p) for p in fun["kwonly"] if p[1] != ["H"]]
    for n in names:
        if rng.random() < 0.7:
            kw.append([n, gen_raw_arg(rng, ids, False)])
    if rng.random() < 0.2:
        n = rng.choice(["zz", "a", "x_y", "xY", "val", "val_", "b", "k", "max_count", "maxCount", "lim", "opt_"])
        if n not in [k for k, _ in kw] and n not in rc.colliding_names([fun]):
            kw.append([n, gen_raw_arg(rng, ids, False)])
    return args, kw


def spellings(fun, assignment, extras):
    """every spelling of one assignment: (args, kw).  assignment: {python name: JSON arg | None (omitted)}"""
    vis = [p for p in fun["pos"] if p[1] != ["H"]]
    kwonly = [p for p in fun["kwonly"] if p[1] != ["H"]]
    out = []
    for k in range(len(vis) + 1):
        if extras and k < len(vis):
            continue
        prefix = [assignment[p[0]] if assignment[p[0]] is not None else ["skip"] for p in vis[:k]]
        kw = [[rc.palias(p), assignment[p[0]]] for p in vis[k:] + kwonly if assignment[p[0]] is not None]
        variants = [prefix + extras]
        if not extras:
            stripped = list(prefix)
            while stripped and stripped[-1] == ["skip"]:
                stripped.pop()
            if stripped != prefix:
                variants.append(stripped)
        for a in variants:
            out.append((a, kw))
            if len(kw) > 1:
                out.append((a, list(reversed(kw))))
    return out


SLOT_KW_CLASS = "empty slot whose parameter is passed by keyword"


def slot_keyword_variants(fun, assignment, extras):
    """NOT a spelling of the property's list: a parameter passed by keyword whose positional slot is left
    empty as well, f(x, , b => y).  get_delegate binds it like every other spelling; map_args rejects it
    unless the definition has *args (open finding, class SLOT_KW_CLASS)."""
    vis = [p for p in fun["pos"] if p[1] != ["H"]]
    kwonly = [p for p in fun["kwonly"] if p[1] != ["H"]]
    out = []
    if extras:
        return out
    for k in range(len(vis)):
        if not any(assignment[p[0]] is not None for p in vis[k:]):
            continue
        prefix = [assignment[p[0]] if assignment[p[0]] is not None else ["skip"] for p in vis[:k]]
        kw = [[rc.palias(p), assignment[p[0]]] for p in vis[k:] + kwonly if assignment[p[0]] is not None]
        last = max(i for i, p in enumerate(vis) if i >= k and assignment[p[0]] is not None)
        out.append((prefix + [["skip"]] * (last - k + 1), kw))
    return out


def precheck_guard(fun, assignment):
    """every visible positional parameter's argument (or default) passes the pre-evaluation type check and every
    bound parameter is given or defaulted: exactly then map_args must accept all spellings (C12_spellings_map_exact)"""
    ps, star, kwonly, ss = rc._sparams(fun)
    for p in [q for q in ps if not q.hidden] + [q for q in kwonly if not q.hidden]:
        a = assignment[p.name]
        if a is None and not p.has_default:
            return False
        if p.where == "pos" and not p.accepts(a if a is not None else ["raw", p.default]):
            return False
    return True


def gen_assignment(rng, fun):
    ids = itertools.count(1)
    asg = {}
    for p in [q for q in fun["pos"] if q[1] != ["H"]] + [q for q in fun["kwonly"] if q[1] != ["H"]]:
        if p[2] is not None and rng.random() < 0.5:
            asg[p[0]] = None
        else:
            v = rc.gen_value_for(rng, p[1])
            asg[p[0]] = rng.choice([["raw", v], ["raw", v], ["const", v], ["expr", next(ids), v]])
    extras = []
    if fun["star"] and rng.random() < 0.5:
        extras = [["raw", rc.gen_value_for(rng, fun["star"][1])] for _ in range(rng.choice([1, 2]))]
    return asg, extras


def run_binding(fd, ctx, args, kw):
    """-> (map observation | None, delegate observation | None | ("foreign", ...))"""
    log, table = [], {}
    pargs = tuple(rc.build_arg(a, log, table) for a in args)
    pkw = {k: rc.build_arg(a, log, table) for k, a in kw}
    eng = rc.engine()
    m = fd.map_args(pargs, dict(pkw), ctx, eng)
    mobs = None
    if m is not None:
        mobs = [[p.name for p in m[0]], sorted([k, p.name] for k, p in m[1].items())]
    try:
        d = fd.get_delegate(utils.NO_VALUE, eng, ctx, pargs, dict(pkw))
        res = d()
        o = rc.canon_result(res, table)
        dobs = [o[2], o[3]]
    except exceptions.ArgumentException:
        dobs = None
    except Exception as e:          # anything else is outside the model
        dobs = ("foreign", type(e).__name__)
    return mobs, dobs


def bcase_term(fd, args, kw, mobs, dobs):
    mt = "None" if mobs is None else "(Some (%s, %s))" % (
        gal.zlist(rc.ncode(n) for n in mobs[0]),
        gal.lst(gal.pair(gal.z(rc.ncode(k)), gal.z(rc.ncode(n))) for k, n in mobs[1]))
    dt = "None" if dobs is None else "(Some (%s, %s))" % (
        gal.lst(rc.bval_term(b) for b in dobs[0]),
        gal.lst(gal.pair(gal.z(rc.ncode(k)), rc.bval_term(b)) for k, b in dobs[1]))
    return "{| b_params := %s; b_args := %s; b_kwargs := %s; b_map := %s; b_del := %s |}" % (
        rc.params_term(fd), gal.lst(rc.arg_term(a) for a in args),
        gal.lst(gal.pair(gal.z(rc.ncode(k)), rc.arg_term(a)) for k, a in kw), mt, dt)


def binding_ok(dobs):
    if dobs is None:
        return True
    if isinstance(dobs, tuple):
        return False
    return all(b[0] != "foreign" and (b[0] not in ("exprobj", "callable") or b[1] != ["unknown"])
               for b in dobs[0] + [kv[1] for kv in dobs[1]])


def check_aliases(run, fun, fd):
    declared = {q[0]: q[3] for q in fun["pos"] + fun["kwonly"] if len(q) > 3 and q[3]}
    for key, p in fd.parameters.items():
        want = declared.get(p.name) or rc.camel(p.name)
        if p.alias != want:
            run.fail("violation", "a parameter's alias is neither the declared one nor the convention-translated name",
                     {"function": fun, "parameter": p.name, "alias": p.alias, "required": want})
            return False
    return True


def correspondence(run):
    rng = run.rng
    ctx = rc.OrderedContext()
    cases, meta = [], []
    shape0 = {"nvis": 2, "lazy": set(), "pstar": 0.3, "pkwonly": 0.5, "pss": 0.3, "kindw": [1, 0, 0], "pnokw": 0.0}
    nfun = run.n(1500, 12000)
    corpus = load_corpus()
    for i in range(len(corpus) + nfun):
        if i < len(corpus):
            fun = corpus[i]["fun"]
        else:
            shape = dict(shape0, nvis=rng.choice([0, 1, 2, 2, 3, 3, 4]), lazy=set(rng.sample(range(4), rng.choice([0, 0, 1]))))
            fun = rc.gen_fun(rng, 1, shape)
        try:
            fd = rc.make_function(fun)
        except SyntaxError:
            run.cov["skipped"] += 1
            continue
        if not check_aliases(run, fun, fd):
            continue
        calls = []
        if i < len(corpus):
            calls.append((corpus[i]["args"], corpus[i]["kw"], "corpus"))
        for _ in range(2):
            a, k = gen_binding_call(rng, fun)
            calls.append((a, k, "random"))
        asg, extras = gen_assignment(rng, fun)
        sp = spellings(fun, asg, extras)
        group = []
        for a, k in sp:
            calls.append((a, k, "spelling"))
        for a, k in slot_keyword_variants(fun, asg, extras):
            calls.append((a, k, "slot+keyword"))
        hidden_pos = any(p[1] == ["H"] for p in fun["pos"])
        for a, k, origin in calls:
            mobs, dobs = run_binding(fd, ctx, a, k)
            run.case((fun, a, k), nontrivial=hidden_pos or bool(k) or ["skip"] in a)
            run.count("binding:" + origin)
            run.count("delegate:" + ("fails" if dobs is None else "binds"))
            run.count("map_args:" + ("None" if mobs is None else "ok"))
            if not binding_ok(dobs):
                run.fail("violation", "get_delegate raised an exception other than ArgumentException or delivered a foreign object",
                         {"fun": fun, "args": a, "kw": k, "observed": dobs})
                continue
            if origin in ("spelling", "slot+keyword"):
                group.append((a, k, dobs, mobs is not None, origin))
            cases.append(bcase_term(fd, a, k, mobs, dobs))
            meta.append((fun, a, k, mobs, dobs))
        if len(meta) % 50 == 0:
            run.sample({"fun": fun, "args": calls[0][0], "kw": calls[0][1]})
        # the property itself, directly: all spellings of one assignment bind alike
        outs = {}
        for a, k, dobs, _, _ in group:
            key = repr(dobs if dobs is None else [dobs[0], sorted(dobs[1])])
            outs.setdefault(key, (a, k, dobs))
        if len(outs) > 1:
            vals = list(outs.values())
            run.fail("violation", "two spellings of the same assignment bind differently",
                     {"fun": fun, "assignment": asg, "extras": extras,
                      "spelling_1": {"args": vals[0][0], "kw": vals[0][1], "bound": vals[0][2]},
                      "spelling_2": {"args": vals[1][0], "kw": vals[1][1], "bound": vals[1][2]},
                      "required": "the same get_delegate binding for every spelling"})
        # map_args: under the guard every spelling is accepted (C12_spellings_map_equal_guarded / _exact)
        if group and not extras and precheck_guard(fun, asg):
            run.count("map_args:guarded-assignment")
            rejected = [(a, k) for a, k, _, ok, origin in group if not ok and origin == "spelling"]
            if rejected:
                run.fail("violation", "map_args rejects a spelling although every parameter is given or defaulted and every "
                                      "argument passes the pre-evaluation check",
                         {"fun": fun, "assignment": asg, "extras": extras, "rejected_spelling": {"args": rejected[0][0], "kw": rejected[0][1]},
                          "required": "accepted, like every other spelling of the assignment"})
            odd = [(a, k) for a, k, _, ok, origin in group if not ok and origin == "slot+keyword"]
            if odd and not rejected:
                run.count("map_args:slot+keyword-rejected")
                if not _slot_kw_reported:
                    _slot_kw_reported.append(1)
                    run.fail("violation", "map_args rejects a call whose parameter is passed by keyword while its positional slot is left "
                                          "empty, f(x, , b => y), although get_delegate binds it like every other spelling (and the same "
                                          "call is accepted when the definition happens to have *args)",
                             {"finding_class": SLOT_KW_CLASS, "fun": fun, "assignment": asg,
                              "slot_keyword_call": {"args": odd[0][0], "kw": odd[0][1]},
                              "required": "accepted (or rejected) independently of an unrelated *args parameter"})
    bad = run.coq_mismatches(HEADER, "bcase", "bcase_ok", cases, shard=300)
    for i in bad[:20]:
        fun, a, k, mobs, dobs = meta[i]
        run.fail("mismatch", "Model/Resolution.v and specs.py disagree on map_args / get_delegate of one call",
                 {"fun": fun, "args": a, "kw": k, "map_args": mobs, "get_delegate": dobs})
    # (b) naming
    conv = conventions.CamelCaseConvention()
    ncases, nmeta = [], []
    alphabet = "ab_Z9#*x__"
    for i in range(run.n(400, 4000)):
        name = "".join(rng.choice(alphabet) for _ in range(rng.randrange(0, 9)))
        if name and not name.rstrip("_"):
            continue                      # python raises IndexError for all-underscore names; never registered
        f = specs.convert_function_name(name, conv)
        p = specs.convert_parameter_name(name, conv)
        run.count("naming")
        ncases.append("{| n_in := %s; n_fun := %s; n_par := %s |}" % (gal.s(name), gal.s(f), gal.s(p)))
        nmeta.append((name, f, p))
    for i in run.coq_mismatches(HEADER, "ncase", "ncase_ok", ncases, shard=500)[:10]:
        name, f, p = nmeta[i]
        exp = rc.camel(name)
        if p != exp:
            run.fail("violation", "convert_parameter_name does not follow the camelCase convention",
                     {"name": name, "observed": p, "required": exp})
        else:
            run.fail("mismatch", "Model/Naming.v and specs.convert_function_name disagree", {"name": name, "function_name": f, "parameter_name": p})


_slot_kw_reported = []


def classify(failure, known_entries):
    cls = failure.data.get("finding_class")
    for k in known_entries:
        if cls and k.get("class") == cls:
            return "%s %s" % (k["id"], k.get("line", ""))
    return None


def load_corpus():
    import json
    import os
    path = os.path.join(os.path.dirname(os.path.dirname(os.path.dirname(os.path.abspath(__file__)))), "corpus", "C12.json")
    if not os.path.exists(path):
        return []
    return json.load(open(path))


# ------------------------------------------------------------------------------------------------
# O: the registry spelling sweep
# ------------------------------------------------------------------------------------------------
UTC = datetime.timezone.utc
CORPUS = [
    ("int", lambda: 3), ("zero", lambda: 0), ("one", lambda: 1), ("neg", lambda: -2), ("float", lambda: 2.5),
    ("str", lambda: "abc"), ("str2", lambda: "a,b c"), ("empty", lambda: ""), ("true", lambda: True), ("false", lambda: False),
    ("null", lambda: None), ("list", lambda: (1, 2, 3)), ("strs", lambda: ("b", "a", "c")), ("elist", lambda: ()),
    ("nested", lambda: ((1, 2), (3,))), ("dict", lambda: utils.FrozenDict({"a": 1, "b": 2})),
    ("set", lambda: frozenset([1, 2])), ("iter", lambda: iter([1, 2, 3])),
    ("dt", lambda: datetime.datetime(2020, 1, 2, 3, 4, 5, tzinfo=UTC)), ("ts", lambda: datetime.timedelta(hours=1)),
    ("pairs", lambda: (("a", 1), ("b", 2))), ("regex", lambda: re.compile("[ab]")),
    ("edict", lambda: utils.FrozenDict({})), ("fzero", lambda: 0.0), ("eset", lambda: frozenset()),
    ("bigstr", lambda: "a" * 400), ("midstr", lambda: "a" * 60), ("biglist", lambda: tuple(range(40))), ("midlist", lambda: tuple(range(12))),
]
LITERALS_OF = {"bigstr": "'%s'" % ("a" * 400), "midstr": "'%s'" % ("a" * 60),
               "biglist": "[%s]" % ", ".join(str(i) for i in range(40)), "midlist": "[%s]" % ", ".join(str(i) for i in range(12)),
               "str": "'abc'", "empty": "''", "int": "3", "zero": "0", "list": "[1, 2, 3]", "elist": "[]", "true": "true", "false": "false"}
FALSY = ("zero", "empty", "false", "elist", "edict", "fzero", "eset")
CORPUS_D = dict(CORPUS)
ADDRESS = re.compile(r"0x[0-9a-fA-F]+")
LAMBDAS = ["$", "true", "$ > 1", "1", "$1"]
LAMBDAS_PLAIN = ["$", "true", "1"]
CONST_LAMBDAS = ("true", "1")

_sweep_engine = None


def sweep_engine():
    global _sweep_engine
    if _sweep_engine is None:
        _sweep_engine = yaql.YaqlFactory().create(options={"yaql.limitIterators": 500, "yaql.memoryQuota": 2000000})
    return _sweep_engine


class Timeout(Exception):
    pass


def _alarm(signum, frame):
    raise Timeout()


def canon(v, depth=0):
    if depth > 6:
        return "deep"
    if isinstance(v, str):
        return ["str", ADDRESS.sub("0x", repr(v))]          # str(<object at 0x...>) carries a memory address
    if v is None or isinstance(v, (bool, int)):
        return [type(v).__name__, repr(v)]
    if isinstance(v, float):
        return ["float", v.hex()]
    if isinstance(v, (tuple, list)):
        return ["seq", [canon(x, depth + 1) for x in v]]
    if isinstance(v, utils.MappingType):
        return ["map", sorted(([canon(k, depth + 1), canon(x, depth + 1)] for k, x in v.items()), key=repr)]
    if isinstance(v, utils.SetType):
        return ["set", sorted((canon(x, depth + 1) for x in v), key=repr)]
    if isinstance(v, (datetime.datetime, datetime.timedelta)):
        return [type(v).__name__, repr(v)]
    if utils.is_iterable(v):
        return ["seq", [canon(x, depth + 1) for x in itertools.islice(iter(v), 60)]]
    return ["object", type(v).__name__]


_engine_override = [None]


def evaluate(expr, ctx):
    old = signal.signal(signal.SIGALRM, _alarm)
    signal.alarm(4)
    random.seed(20260928)                 # the library's random()/shuffle-like functions use python's global generator
    try:
        return ["ok", canon(expr(utils.NO_VALUE, ctx, _engine_override[0] or sweep_engine()))]
    except Timeout:
        return ["timeout"]
    except RecursionError:
        return ["error", "RecursionError"]
    except Exception as e:
        return ["error", type(e).__name__]
    finally:
        signal.alarm(0)
        signal.signal(signal.SIGALRM, old)


def classify_param(p):
    t = p.value_type
    if isinstance(t, yaqltypes.HiddenParameterType):
        return "hidden"
    if isinstance(t, yaqltypes.MappingRule):
        return "unsupported"
    if isinstance(t, yaqltypes.Lambda):
        return "lambda"
    if isinstance(t, yaqltypes.YaqlExpression):
        return "expr" if not t._expression_types else "unsupported"
    if isinstance(t, yaqltypes.Keyword):
        return "keyword"
    if isinstance(t, yaqltypes.StringConstant):
        return "strconst"
    if isinstance(t, yaqltypes.BooleanConstant):
        return "boolconst"
    if isinstance(t, yaqltypes.NumericConstant):
        return "numconst"
    if isinstance(t, yaqltypes.Constant):
        return "numconst"
    return "value"


LITERALS = {"keyword": "abc", "strconst": "'abc'", "boolconst": "true", "numconst": "1"}


class Def:
    """one FunctionDefinition of the registry prepared for the sweep"""

    def __init__(self, fd, index, base_ctx, convention=None):
        self.fd, self.index = fd, index
        self.convention = convention
        self.no_call = convention is not None
        self.ctx = base_ctx.create_child_context()
        self.ctx.register_function(fd, exclusive=True)
        ps = list(fd.parameters.items())
        self.pos = sorted([(k, p) for k, p in ps if p.position is not None and k != "*"], key=lambda kp: kp[1].position)
        self.vis = [p for _, p in self.pos if classify_param(p) != "hidden"]
        self.kwonly = [p for k, p in ps if p.position is None and k != "**" and classify_param(p) != "hidden"]
        self.star = fd.parameters.get("*")
        self.bound = self.vis + self.kwonly
        self.kinds = {p.name: classify_param(p) for p in self.bound + ([self.star] if self.star else [])}
        self.supported = "unsupported" not in self.kinds.values()
        self.has_lazy = any(k in ("lambda", "expr", "keyword", "strconst", "boolconst", "numconst") for k in self.kinds.values())
        self.operatorish = fd.name.startswith("#") or fd.name.startswith("*")

    def kw(self, p):
        """the keyword name the caller uses: the registered alias; under a custom convention the convention's
        PARAMETER conversion of the python name (computed from the convention itself), unless declared explicitly"""
        if self.convention is None:
            return p.alias or p.name
        master = getattr(self.fd.payload, "__yaql_function__", None)
        for key, q in (master.parameters.items() if master is not None else ()):
            if q.name == p.name and q.alias:
                return q.alias
        return self.convention.convert_parameter_name(p.name.rstrip("_"))

    def candidates(self, p):
        kind = self.kinds[p.name]
        if kind == "lambda":
            return [("L", t) for t in (LAMBDAS_PLAIN if self.operatorish else LAMBDAS)]
        if kind == "expr":
            return [("L", "$")]
        if kind in LITERALS:
            return [("L", LITERALS[kind])]
        eng = sweep_engine()
        out = []
        for key, mk in CORPUS:
            try:
                if p.value_type.check(mk(), self.ctx, eng):
                    out.append(("V", key))
            except Exception:
                pass
        return out


def registry_defs(convention=None):
    base = yaql.create_context(convention=convention) if convention is not None else yaql.create_context()
    out, ctx = [], base
    index = 0
    while ctx is not None:
        for name in sorted(ctx._functions):
            fds = sorted(ctx._functions[name], key=lambda fd: (fd.payload.__module__, fd.payload.__qualname__,
                                                                  getattr(fd.payload, "__code__", None) and fd.payload.__code__.co_firstlineno or 0,
                                                                  sorted(fd.parameters)))
            for fd in fds:
                out.append(Def(fd, index, base, convention))
                index += 1
        ctx = ctx.parent
    return out


def make_ctx(d, assignment, extras, explicit, base=None):
    """child context holding the values as variables; returns (ctx, {param name: argument text})"""
    ctx = (base if base is not None else d.ctx).create_child_context()
    texts = {}
    n = 0
    for p in d.bound:
        a = assignment.get(p.name)
        if a is None:
            if p.name in explicit:
                ctx["d%d" % n] = p.default
                texts[p.name] = "$d%d" % n
                n += 1
            continue
        if a[0] == "L":
            texts[p.name] = a[1]
        else:
            ctx["v%d" % n] = CORPUS_D[a[1]]()
            texts[p.name] = "$v%d" % n
            n += 1
    etexts = []
    for a in extras:
        if a[0] == "L":
            etexts.append(a[1])
        else:
            ctx["v%d" % n] = CORPUS_D[a[1]]()
            etexts.append("$v%d" % n)
            n += 1
    return ctx, texts, etexts


def parse_args(arg_text):
    """the parser's reading of an argument list (covers empty slots and `name => value`)"""
    try:
        stmt = sweep_engine()("zzfn(%s)" % arg_text)
    except exceptions.YaqlParsingException:
        raise NotExpressible()
    return stmt.expression.args


class NotExpressible(Exception):
    """the grammar has no spelling for this argument list (e.g. two empty slots before a named argument)"""


def spell_text(d, texts, etexts, k, omitted_as_slots=True):
    """argument list text for split point k, or None when not expressible in the grammar"""
    pos = []
    for p in d.vis[:k]:
        pos.append(texts.get(p.name, ""))
    pos += etexts
    kw = ["%s => %s" % (d.kw(p), texts[p.name]) for p in d.vis[k:] + d.kwonly if p.name in texts]
    while pos and pos[-1] == "" and not kw:
        pos.pop()
    if pos and pos[-1] == "" and kw:
        pass                                   # `a, , k => v`: incomplete_arglist ',' named_arglist
    if pos == [""]:
        return None                            # `f(, k => v)` is not in the grammar
    return ", ".join(pos + kw)


def forms(d, assignment, extras, explicit=()):
    """-> list of (label, thunk) evaluating one spelling through one call form"""
    out = []
    fd = d.fd
    nokw = fd.no_kwargs
    given_first = bool(d.vis) and (assignment.get(d.vis[0].name) is not None or d.vis[0].name in explicit)
    for k in range(len(d.vis) + 1):
        if extras and k < len(d.vis):
            continue
        uses_kw = any((assignment.get(p.name) is not None or p.name in explicit) for p in d.vis[k:] + d.kwonly)
        if nokw and uses_kw:
            continue

        def thunk(k=k, form="function"):
            ctx, texts, etexts = make_ctx(d, assignment, extras, explicit)
            text = spell_text(d, texts, etexts, k)
            if text is None:
                return None
            try:
                if form == "function":
                    expr = expressions.Function(fd.name, *parse_args(text))
                else:
                    first = texts[d.vis[0].name]
                    rest = spell_text_method(d, texts, etexts, k)
                    if rest is None:
                        return None
                    op = "?." if form == "method?." else "."
                    expr = expressions.BinaryOperator(op, parse_args(first)[0], expressions.Function(fd.name, *parse_args(rest)), None)
            except NotExpressible:
                return None
            return evaluate(expr, ctx)

        if fd.is_function:
            out.append(("function k=%d" % k, thunk))
        if fd.is_method and k >= 1 and given_first and fd.name != "#operator_.":
            out.append(("method k=%d" % k, lambda k=k, thunk=thunk: thunk(k, "method")))
            a0 = assignment.get(d.vis[0].name)
            if a0 is not None and a0 != ["V", "null"] and a0 != ["L", "null"] and fd.name != "#operator_?.":
                # the other method-call operator: for a non-null receiver `?.` is `.`
                out.append(("method ?. k=%d" % k, lambda k=k, thunk=thunk: thunk(k, "method?.")))
        # call(name, args, kwargs): plain values only, no empty slots
        # lazy Lambda parameters take part when their argument is a constant (call() hands over its value)
        lazy_ok = all(d.kinds[p.name] == "value" or
                      (d.kinds[p.name] == "lambda" and not p.value_type.method     # Lambda(method=True) wants a receiver-using expression
                       and (assignment.get(p.name) or ["L", "1"])[1] in CONST_LAMBDAS)
                      for p in d.bound) and (d.star is None or d.kinds[d.star.name] == "value" or
                                             all(e[0] == "L" and e[1] in CONST_LAMBDAS for e in extras))
        if fd.is_function and lazy_ok and not d.no_call and fd.name not in ("call", "dict", "#list", "#map", "#get_context_data", "#operator_=>") \
                and all((assignment.get(p.name) is not None or p.name in explicit) for p in d.vis[:k]) \
                and not (nokw and uses_kw):
            def cthunk(k=k):
                ctx, texts, etexts = make_ctx(d, assignment, extras, explicit)
                pos = [texts[p.name] for p in d.vis[:k]] + etexts
                kw = ["%s => %s" % (d.kw(p), texts[p.name]) for p in d.vis[k:] + d.kwonly if p.name in texts]
                text = "call('%s', [%s], dict(%s))" % (fd.name, ", ".join(pos), ", ".join(kw))
                return evaluate(sweep_engine()(text).expression, ctx)
            out.append(("call() k=%d" % k, cthunk))
    return out


def spell_text_method(d, texts, etexts, k):
    pos = [texts.get(p.name, "") for p in d.vis[1:k]] + etexts
    kw = ["%s => %s" % (d.kw(p), texts[p.name]) for p in d.vis[k:] + d.kwonly if p.name in texts]
    while pos and pos[-1] == "" and not kw:
        pos.pop()
    if pos == [""]:
        return None
    return ", ".join(pos + kw)


def sweep_assignment(run, d, assignment, extras):
    """all spellings x forms of one assignment must give one outcome"""
    fs = forms(d, assignment, extras)
    results = []
    for label, th in fs:
        r = th()
        if r is None:
            continue
        results.append((label, r))
    if len(results) < 1:
        return 0
    if any(r == ["timeout"] for _, r in results):
        run.count("sweep:timeout")
        return 0
    # non-deterministic library functions (random(), now(), ...): python's random module is re-seeded before every
    # evaluation (see evaluate) and the FIRST spelling is evaluated three more times; if the same spelling does not
    # reproduce its own result, only the outcome class and the type of the result are compared for this assignment
    ref_label, ref = results[0]
    first = [th for label, th in fs if label == ref_label][0]
    loose = any(first() != ref for _ in range(3))
    if loose:
        run.count("sweep:nondeterministic-assignments")
        _nondeterministic.add(d.fd.name)

    def differs(r):
        if outcome_class(r) != outcome_class(ref):
            return True
        if r[0] != "ok":
            return False
        return (r[1][0] != ref[1][0]) if loose else (r != ref)

    limit_errors = ("MemoryQuotaExceededException", "CollectionTooLargeException")

    def tolerated(label, r):
        """on engines with limits: (a) two REFUSALS, one by a limit and one by resolution - which of them is reported first
        is not part of the property; (b) a call() spelling refused by a limit where the direct spelling succeeds - the
        argument list / keyword dict handed to call() is one more value, larger than any single argument"""
        if not _quota_mode[0]:
            return False
        e1 = ref[0] == "error" and ref[1] in limit_errors
        e2 = r[0] == "error" and r[1] in limit_errors
        if ref[0] == "error" and r[0] == "error" and (e1 or e2):
            return True
        if e2 and ref[0] == "ok" and label.startswith("call()"):
            return True
        if e1 and r[0] == "ok" and ref_label.startswith("call()"):
            return True
        return False

    for label, r in results[1:]:
        if differs(r):
            if tolerated(label, r):
                run.count("quota_sweep:tolerated")
                continue
            run.fail("violation", "two ways of passing the same arguments to a library function give different outcomes",
                     describe(d, assignment, extras, ref_label, ref, label, r))
            return len(results)
    # omitted defaults given explicitly (eagerly evaluated parameters only)
    omitted = [p for p in d.bound if assignment.get(p.name) is None and d.kinds[p.name] == "value"
               and p.default is not specs.NO_DEFAULT and p.default is not utils.NO_VALUE]
    for p in omitted[:2]:
        fs2 = forms(d, assignment, extras, explicit=(p.name,))
        for label, th in fs2[:2]:
            r = th()
            if r is None:
                continue
            results.append((label, r))
            if differs(r):
                run.fail("violation", "passing a default value explicitly differs from omitting it",
                         describe(d, assignment, extras, ref_label, ref, label + " explicit " + p.name, r, explicit=p.name))
                return len(results)
    return len(results)


_nondeterministic = set()
_quota_mode = [False]


def outcome_class(r):
    return r[0] if r[0] != "error" else "error:" + r[1]


def describe(d, assignment, extras, l1, r1, l2, r2, explicit=None):
    return {"function": d.fd.name, "registry_index": d.index,
            "parameters": [[p.name, p.alias, d.kinds[p.name]] for p in d.bound],
            "assignment": {k: v for k, v in assignment.items()}, "extras": extras, "explicit": explicit,
            "form_1": l1, "outcome_1": r1, "form_2": l2, "outcome_2": r2,
            "required": "the same result or the same error class"}


def gen_sweep_assignment(rng, d, omit):
    asg = {}
    for p in d.bound:
        if p.name in omit:
            asg[p.name] = None
            continue
        c = d.candidates(p)
        if not c:
            return None
        falsy = [x for x in c if x[0] == "V" and x[1] in FALSY]
        asg[p.name] = list(rng.choice(falsy)) if falsy and d.vis and p is d.vis[0] and rng.random() < 0.4 else list(rng.choice(c))
    extras = []
    if d.star is not None and rng.random() < 0.6:
        c = d.candidates(d.star)
        if c:
            extras = [list(rng.choice(c)) for _ in range(rng.choice([1, 2]))]
    return asg, extras


def kind_check(run, d):
    """method-only never callable as function, function-only never as method"""
    fd = d.fd
    eng = sweep_engine()
    ctx = d.ctx.create_child_context()
    if fd.is_method and not fd.is_function:
        try:
            ctx(fd.name, eng)(*[expressions.Constant(1)] * len(d.vis))
            got = "ran"
        except exceptions.NoFunctionRegisteredException:
            return
        except Exception as e:
            got = type(e).__name__
        run.fail("violation", "a method-only definition is reachable by a receiver-less call",
                 {"function": fd.name, "registry_index": d.index, "observed": got, "required": "NoFunctionRegisteredException"})
    if fd.is_function and not fd.is_method:
        try:
            ctx(fd.name, eng, receiver=1)(*[expressions.Constant(1)] * max(0, len(d.vis) - 1))
            got = "ran"
        except exceptions.NoMethodRegisteredException:
            return
        except Exception as e:
            got = type(e).__name__
        run.fail("violation", "a function-only definition is reachable by a method call",
                 {"function": fd.name, "registry_index": d.index, "observed": got, "required": "NoMethodRegisteredException"})


def oracle(run, deep):
    rng = run.rng
    defs = registry_defs()
    tuples = run.n(3, 20) * (2 if deep else 1)
    swept = 0
    for d in defs:
        kind_check(run, d)
        if not d.supported:
            run.count("sweep:unsupported-definition")
            run.cov["uncovered"].append("%s#%d" % (d.fd.name, d.index))
            continue
        defaulted = [p.name for p in d.bound if p.default is not specs.NO_DEFAULT]
        subsets = [()]
        for r in range(1, len(defaulted) + 1):
            subsets += list(itertools.combinations(defaulted, r))
        if len(subsets) > 8:
            subsets = [()] + rng.sample(subsets[1:], 7)
        done = 0
        for t in range(tuples):
            for omit in subsets:
                g = gen_sweep_assignment(rng, d, set(omit))
                if g is None:
                    run.count("sweep:no-typed-candidate")
                    break
                n = sweep_assignment(run, d, g[0], g[1])
                run.count("sweep:evaluations", n)
                done += n
        swept += 1 if done else 0
    run.count("sweep:definitions", swept)
    run.note("registry sweep: %d definitions, %d swept" % (len(defs), swept))
    run.note("non-deterministic library functions (same spelling twice gave different results; compared by outcome class and "
             "result type only): %s" % (sorted(_nondeterministic) or "none"))
    composite_check(run, defs)
    quota_sweep(run, defs)
    convention_check(run)
    custom_convention_check(run)


def quota_sweep(run, defs):
    """the spelling sweep on engines WITH yaql.memoryQuota / yaql.limitIterators, with argument values above and just
    below the limits, passed as LITERALS in the expression text and as context variables: all spellings must agree"""
    rng = run.rng
    engines = [yaql.YaqlFactory().create(options={"yaql.memoryQuota": 300}),
               yaql.YaqlFactory().create(options={"yaql.limitIterators": 20}),
               yaql.YaqlFactory().create(options={"yaql.memoryQuota": 900, "yaql.limitIterators": 30})]
    big = ("bigstr", "midstr", "biglist", "midlist", "str", "list", "empty", "elist")
    usable = []
    for d in defs:
        if not d.supported:
            continue
        cands = {p.name: [c for c in d.candidates(p) if c[0] == "V" and c[1] in big] for p in d.bound if d.kinds[p.name] == "value"}
        if any(cands.values()):
            usable.append((d, cands))
    _quota_mode[0] = True
    try:
        # definitions callable BOTH as function and as method come first (their spellings include the method forms, whose
        # receiver takes another path to the payload than a function argument), then a random sample of the rest
        both = [u for u in usable if u[0].fd.is_function and u[0].fd.is_method]
        rest = [u for u in usable if u not in both]
        rng.shuffle(both)
        order = both[:run.n(40, 400)] + rng.sample(rest, min(run.n(25, 400), len(rest)))
        # deterministic part: every such definition with ONE argument just over the engine's limit, as literal and as variable
        over = [(engines[0], ("bigstr", "biglist")), (engines[1], ("biglist",))]
        for d, cands in both[:run.n(60, 400)]:
            for eng_, keys in over:
                for key in keys:
                    target = next((name for name, cs in cands.items() if any(c[1] == key for c in cs)), None)
                    if target is None:
                        continue
                    for as_literal in (True, False):
                        g = gen_sweep_assignment(rng, d, set())
                        if g is None:
                            continue
                        asg, extras = g
                        asg[target] = ["L", LITERALS_OF[key]] if as_literal and key in LITERALS_OF else ["V", key]
                        _engine_override[0] = eng_
                        before = len(run.failures)
                        n = sweep_assignment(run, d, asg, extras)
                        run.count("quota_sweep:evaluations", n)
                        if len(run.failures) > before:
                            run.failures[-1].data["engine_options"] = dict(eng_.options)
                            return
        for d, cands in order:
            _engine_override[0] = rng.choice(engines)
            for as_literal in (True, False):
                g = gen_sweep_assignment(rng, d, set())
                if g is None:
                    break
                asg, extras = g
                for name, cs in cands.items():
                    if cs and rng.random() < 0.8:
                        key = rng.choice(cs)[1]
                        asg[name] = ["L", LITERALS_OF[key]] if as_literal and key in LITERALS_OF else ["V", key]
                before = len(run.failures)
                n = sweep_assignment(run, d, asg, extras)
                run.count("quota_sweep:evaluations", n)
                if len(run.failures) > before:
                    dd = run.failures[-1].data
                    o1, o2 = dd.get("outcome_1"), dd.get("outcome_2")
                    limit_errors = ("MemoryQuotaExceededException", "CollectionTooLargeException")
                    if (isinstance(o1, (list, tuple)) and isinstance(o2, (list, tuple)) and o1 and o2 and o1[0] == "error" and o2[0] == "error"
                            and (o1[1] in limit_errors or o2[1] in limit_errors)):
                        # both spellings are REFUSED, one by a limit and one by resolution: which of two refusals is
                        # reported first (the quota check of an argument or the type check of another) is not part of
                        # "the same result or the same error class" for a call that is an error anyway
                        del run.failures[before:]
                        run.count("quota_sweep:both_refused_differently")
                        continue
                    dd["engine_options"] = dict(_engine_override[0].options)
                    return
    finally:
        _engine_override[0] = None
        _quota_mode[0] = False


def custom_convention_check(run):
    """conventions whose function-name and parameter-name conversions DIFFER: (a) in fresh interpreters, created before /
    after the stock conventions: alias census + all spellings of a multi-word-parameter function (harness/
    c12_custom_conventions.py); (b) in this process: the spelling sweep on a standard library created under such a
    convention, keyword names translated with the convention's parameter conversion"""
    import json
    import os
    import subprocess
    import sys
    import c12_custom_conventions as cc
    helper = os.path.join(os.path.dirname(os.path.dirname(os.path.abspath(__file__))), "c12_custom_conventions.py")
    for conv in sorted(cc.CUSTOM):
        for order in ("custom-first", "stock-first"):
            try:
                p = subprocess.run([sys.executable, "-W", "ignore", helper, conv, order], capture_output=True, text=True,
                                   timeout=300, env=dict(os.environ))
                problems = json.loads(p.stdout.strip().split("\n")[-1])
            except Exception as e:
                run.note("custom convention check (%s, %s) could not be run: %r" % (conv, order, e))
                continue
            run.case(("custom-convention", conv, order), nontrivial=True)
            run.count("custom_convention_orders")
            if problems:
                sp = [q for q in problems if q.get("kind") == "spelling"]
                run.fail("violation", "under a naming convention whose function-name and parameter-name conversions differ, " +
                         ("keyword / mixed spellings of a call resolve differently from the positional one" if sp else
                          "the keyword name of a parameter is not the convention's parameter conversion of its python name"),
                         {"custom_convention": conv, "creation_order": order, "problems": (sp or problems)[:6], "n_problems": len(problems)})
                return
    rng = run.rng
    for conv in sorted(cc.CUSTOM):
        defs = [d for d in registry_defs(cc.CUSTOM[conv]()) if d.supported]
        multi = [d for d in defs if any("_" in p.name.rstrip("_") for p in d.bound)]
        others = [d for d in defs if d not in multi]
        for d in multi + rng.sample(others, min(run.n(25, 150), len(others))):
            g = gen_sweep_assignment(rng, d, set())
            if g is None:
                continue
            before = len(run.failures)
            n = sweep_assignment(run, d, g[0], g[1])
            run.count("custom_convention_sweep:evaluations", n)
            if len(run.failures) > before:
                run.failures[-1].data["custom_convention"] = conv
                return


# ---- the standard library hosted in composite context shapes ------------------------------------------
def _own_stack(rng, depth):
    """a context stack of the host application (no functions of its own), with or without parents"""
    from yaql.language import contexts
    c = contexts.Context()
    for _ in range(depth):
        c = c.create_child_context()
    return c


def composite_host(rng, lib, depth):
    """a context built from the grammar
         S ::= lib | child(S) | Multi([own, S]) | Multi([S, own]) | Linked(own, S) | Multi([Linked(own, S), Linked(own', S)])
       (own: an empty application stack of 0-2 levels).  -> (description, context)"""
    from yaql.language import contexts
    if depth == 0:
        return "lib", lib
    d, s = composite_host(rng, lib, depth - 1)
    r = rng.randrange(6)
    k = rng.randrange(3)
    if r == 0:
        return "child(%s)" % d, s.create_child_context()
    if r == 1:
        return "Multi([own%d, %s])" % (k, d), contexts.MultiContext([_own_stack(rng, k), s])
    if r == 2:
        return "Multi([%s, own%d])" % (d, k), contexts.MultiContext([s, _own_stack(rng, k)])
    if r == 3:
        return "Linked(own%d, %s)" % (k, d), contexts.LinkedContext(_own_stack(rng, k), s)
    if r == 4:
        k2 = rng.randrange(3)
        return ("Multi([Linked(own%d, %s), Linked(own%d, same)])" % (k, d, k2),
                contexts.MultiContext([contexts.LinkedContext(_own_stack(rng, k), s), contexts.LinkedContext(_own_stack(rng, k2), s)]))
    return "Multi([own%d, child(%s)])" % (k, d), contexts.MultiContext([_own_stack(rng, k), s.create_child_context()])


def host_forms(d, assignment, extras, host):
    """the all-positional function form and method form of one call, evaluated with `host` as the library"""
    out = []
    fd = d.fd
    ctx, texts, etexts = make_ctx(d, assignment, extras, (), base=host)
    pos = [texts.get(p.name) for p in d.vis]
    while pos and pos[-1] is None:
        pos.pop()
    if any(t is None for t in pos) or any(p.name in texts for p in d.kwonly):
        return out
    try:
        fargs = parse_args(", ".join(pos + etexts))
        out.append(("as function", evaluate(expressions.Function(fd.name, *fargs), ctx)))
        if pos and fd.name != "#operator_.":
            margs = parse_args(", ".join(pos[1:] + etexts))
            expr = expressions.BinaryOperator(".", parse_args(pos[0])[0], expressions.Function(fd.name, *margs), None)
            ctx2, _, _ = make_ctx(d, assignment, extras, (), base=host)
            out.append(("as method", evaluate(expr, ctx2)))
    except NotExpressible:
        pass
    return out


def composite_check(run, defs):
    """calls of standard-library names - in function form AND in method form, whatever the kind of the definition -
    must resolve on a composite host exactly as on the plain yaql.create_context()"""
    rng = run.rng
    plain = yaql.create_context()
    usable = [d for d in defs if d.supported]
    shapes = []
    for depth in (1, 1, 1, 1, 2, 2, 2, 3) + ((2, 3, 3, 3) if not run.quick else ()):
        shapes.append(composite_host(rng, yaql.create_context(), depth))
    per_shape = run.n(40, 250)
    for desc, host in shapes:
        run.count("composite:shapes")
        for d in rng.sample(usable, min(per_shape, len(usable))):
            g = gen_sweep_assignment(rng, d, set())
            if g is None:
                continue
            ref = host_forms(d, g[0], g[1], plain)
            if any(host_forms(d, g[0], g[1], plain) != ref for _ in range(2)) or any(r == ["timeout"] for _, r in ref):
                run.count("composite:nondeterministic-or-timeout")
                continue
            got = host_forms(d, g[0], g[1], host)
            run.count("composite:evaluations", len(got))
            for (l1, r1), (l2, r2) in zip(ref, got):
                if r2 == ["timeout"]:
                    continue
                if outcome_class(r1) != outcome_class(r2) or (r1[0] == "ok" and r1 != r2):
                    kind = "method-only" if fd_kind(d.fd) == "method" else "function-only" if fd_kind(d.fd) == "function" else "extension"
                    run.fail("violation", "a standard-library call resolves differently when the library is reached through a composite "
                                          "context (MultiContext / LinkedContext) than on the plain context, %s" % l1,
                             {"function": d.fd.name, "registry_index": d.index, "definition_kind": kind, "host_shape": desc,
                              "assignment": g[0], "extras": g[1], "form": l1, "outcome_plain": r1, "outcome_composite": r2,
                              "required": "the same result or error class as on yaql.create_context()"})
                    break


def fd_kind(fd):
    return "extension" if fd.is_function and fd.is_method else "method" if fd.is_method else "function"


def convention_check(run):
    """Keyword names follow the naming convention of the context the function is registered in - also when another
    context with another convention was created earlier in the same process (fresh interpreter per creation order)."""
    import json
    import os
    import subprocess
    import sys
    helper = os.path.join(os.path.dirname(os.path.dirname(os.path.abspath(__file__))), "c12_conventions.py")
    for order in ("py-first", "camel-first"):
        try:
            p = subprocess.run([sys.executable, "-W", "ignore", helper, order], capture_output=True, text=True, timeout=300,
                               env=dict(os.environ))
            problems = json.loads(p.stdout.strip().split("\n")[-1])
        except Exception as e:
            run.note("convention check (%s) could not be run: %r" % (order, e))
            continue
        run.case(("conventions", order), nontrivial=True)
        run.count("convention_orders")
        if problems:
            run.fail("violation", "the keyword name of a parameter is not the convention-translated name of the context it is "
                                  "registered in (two contexts with different conventions in one process)",
                     {"creation_order": order, "problems": problems[:8], "n_problems": len(problems)})
            return


def replay(run, data):
    d = data["data"]
    if "engine_options" in d:
        before = len(run.failures)
        quota_sweep(run, registry_defs())
        return len(run.failures) == before
    if "custom_convention" in d:
        before = len(run.failures)
        custom_convention_check(run)
        return len(run.failures) == before
    if "host_shape" in d:
        before = len(run.failures)
        composite_check(run, registry_defs())
        return len(run.failures) == before
    if "registry_index" in d and "assignment" in d:
        defs = registry_defs()
        cand = [x for x in defs if x.index == d["registry_index"] and x.fd.name == d["function"]]
        if not cand:
            return True
        before = len(run.failures)
        sweep_assignment(run, cand[0], {k: (list(v) if v is not None else None) for k, v in d["assignment"].items()},
                         [list(e) for e in d.get("extras", [])])
        return len(run.failures) == before
    if "registry_index" in d:
        defs = registry_defs()
        cand = [x for x in defs if x.index == d["registry_index"] and x.fd.name == d["function"]]
        before = len(run.failures)
        if cand:
            kind_check(run, cand[0])
        return len(run.failures) == before
    if "slot_keyword_call" in d or "rejected_spelling" in d:
        fd = rc.make_function(d["fun"])
        c = d.get("slot_keyword_call") or d["rejected_spelling"]
        mobs, _ = run_binding(fd, rc.OrderedContext(), c["args"], c["kw"])
        return mobs is not None
    if "spelling_1" in d:
        fd = rc.make_function(d["fun"])
        ctx = rc.OrderedContext()
        o1 = run_binding(fd, ctx, d["spelling_1"]["args"], d["spelling_1"]["kw"])[1]
        o2 = run_binding(fd, ctx, d["spelling_2"]["args"], d["spelling_2"]["kw"])[1]
        norm = lambda o: o if o is None or isinstance(o, tuple) else [o[0], sorted(o[1])]
        return norm(o1) == norm(o2)
    if "parameter" in d:
        fd = rc.make_function(d["function"])
        declared = {q[0]: q[3] for q in d["function"]["pos"] + d["function"]["kwonly"] if len(q) > 3 and q[3]}
        return all(p.alias == (declared.get(p.name) or rc.camel(p.name)) for p in fd.parameters.values())
    if "fun" in d:
        fd = rc.make_function(d["fun"])
        mobs, dobs = run_binding(fd, rc.OrderedContext(), d["args"], d["kw"])
        return not run.coq_mismatches(HEADER, "bcase", "bcase_ok", [bcase_term(fd, d["args"], d["kw"], mobs, dobs)])
    if "name" in d:
        return specs.convert_parameter_name(d["name"], conventions.CamelCaseConvention()) == rc.camel(d["name"])
    return False
