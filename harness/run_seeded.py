"""Confirm a seeded breaking change and run the property's check against it.

usage: run_seeded.py <PID> <dir with patch.diff, demo.py[, notes.md]> <seed-id> [--tier quick|thorough] [--checks P1,P2]

Works on a scratch copy of /repo's HEAD (never on /repo itself): applies the patch, runs the full
test-suite (must pass), the demonstration (must exit 1 with the change, 0 without), then
`YAQL_REPO=<copy> ./check <PID>` and records everything in /verif/seeded/<seed-id>/meta.json."""
import json
import os
import re
import shutil
import subprocess
import sys
import time

VERIF = os.path.dirname(os.path.dirname(os.path.abspath(__file__)))
# the checks are run from a private COPY of /verif (built Coq tree included), so that Gen files regenerated from the
# patched checkout never touch /verif/coq and concurrent checks of /repo are not disturbed
RUNDIR = os.environ.get("VERIF_SEED_RUNDIR", "/var/tmp/verif_seedrun")      # + "_<property>": one copy per property


def sync_rundir():
    global RUNDIR
    RUNDIR = "%s_%s" % (RUNDIR.split("_C")[0], sys.argv[1])
    os.makedirs(RUNDIR, exist_ok=True)
    subprocess.run(["rsync", "-a", "--delete", "--exclude", ".git", "--exclude", "scratch", "--exclude", "replays",
                    "--exclude", "evidence", "--exclude", "seeded", VERIF + "/", RUNDIR + "/"], check=True)


def sh(cmd, cwd=None, env=None, timeout=3600):
    e = dict(os.environ)
    e.update(env or {})
    try:
        p = subprocess.run(cmd, shell=True, cwd=cwd, env=e, capture_output=True, text=True, timeout=timeout)
        return p.returncode, p.stdout + p.stderr
    except subprocess.TimeoutExpired as ex:
        return 124, "TIMEOUT\n" + str(ex.stdout or "")[-2000:]


def main():
    pid, src, seed = sys.argv[1], sys.argv[2], sys.argv[3]
    tier = "quick"
    checks = [pid]
    if "--tier" in sys.argv:
        tier = sys.argv[sys.argv.index("--tier") + 1]
    if "--checks" in sys.argv:
        checks = sys.argv[sys.argv.index("--checks") + 1].split(",")
    copy = "/var/tmp/seed_%s" % seed
    shutil.rmtree(copy, ignore_errors=True)
    os.makedirs(copy)
    meta = {"seed": seed, "property": pid, "ran": []}
    try:
        rc, out = sh("git -C /repo archive HEAD | tar -x -C %s" % copy)
        head = sh("git -C /repo rev-parse --short HEAD")[1].strip()
        meta["repo_head"] = head
        rc, out = sh("patch -p1 < %s/patch.diff" % os.path.abspath(src), cwd=copy)
        meta["patch_applies"] = rc == 0
        meta["ran"].append("patch -p1 < patch.diff (on a copy of /repo %s): rc=%d" % (head, rc))
        if rc != 0:
            meta["patch_output"] = out[-1500:]
            return finish(meta, src, seed)
        rc, out = sh("PYTHONPATH=%s /venv/bin/python -m pytest -q -p no:cacheprovider --timeout=900 2>&1 | tail -5" % copy, cwd=copy)
        m = re.search(r"(\d+) passed", out)
        meta["tests_passed"] = int(m.group(1)) if m else 0
        meta["tests_ok"] = bool(m) and int(m.group(1)) >= 366 and " failed" not in out
        meta["ran"].append("pytest in the patched copy: %s" % out.strip().split("\n")[-1])
        rc1, out1 = sh("YAQL_REPO=%s /venv/bin/python -W ignore %s/demo.py" % (copy, os.path.abspath(src)), timeout=600)
        rc0, out0 = sh("YAQL_REPO=/repo /venv/bin/python -W ignore %s/demo.py" % os.path.abspath(src), timeout=600)
        meta["demo_with_change_exit"] = rc1
        meta["demo_without_change_exit"] = rc0
        meta["demo_output_with_change"] = out1[-800:]
        meta["ran"].append("demo.py: exit %d with the change, exit %d on /repo" % (rc1, rc0))
        meta["confirmed"] = meta["tests_ok"] and rc1 == 1 and rc0 == 0
        meta["checks"] = {}
        sync_rundir()
        for c in checks:
            t0 = time.time()
            rc, out = sh("YAQL_REPO=%s ./check %s --tier %s" % (copy, c, tier), cwd=RUNDIR, timeout=5400)
            viol = [l for l in out.split("\n") if l.startswith("VIOLATION") or l.strip().startswith("what:") or l.strip().startswith("broken:")]
            replay_info = None
            mm = re.search(r"replay=(\S+)", out)
            if mm and os.path.exists(mm.group(1)):
                try:
                    d = json.load(open(mm.group(1)))
                    replay_info = {"what": d.get("what"), "data": {k: (v if len(repr(v)) < 400 else repr(v)[:400]) for k, v in (d.get("data") or {}).items()}}
                except Exception:
                    pass
            meta["checks"][c] = {"tier": tier, "exit": rc, "detected": rc != 0 and any(l.startswith("VIOLATION") for l in viol),
                                 "lines": viol[:8], "first_replay": replay_info, "wall_s": round(time.time() - t0, 1)}
            meta["ran"].append("YAQL_REPO=<patched copy> ./check %s --tier %s: exit %d" % (c, tier, rc))
    finally:
        shutil.rmtree(copy, ignore_errors=True)
    return finish(meta, src, seed)


def finish(meta, src, seed):
    dst = os.path.join(VERIF, "seeded", seed)
    os.makedirs(dst, exist_ok=True)
    for f in ("patch.diff", "demo.py", "notes.md"):
        if os.path.exists(os.path.join(src, f)) and os.path.realpath(os.path.join(src, f)) != os.path.realpath(os.path.join(dst, f)):
            shutil.copy(os.path.join(src, f), os.path.join(dst, f))
    notes = os.path.join(src, "notes.md")
    if os.path.exists(notes):
        meta["needs_to_manifest"] = open(notes).read()[:1500]
    old = os.path.join(dst, "meta.json")
    if os.path.exists(old):
        try:
            prev = json.load(open(old))
            hist = prev.get("history", [])
            hist.append({k: prev.get(k) for k in ("checks", "repo_head")})
            meta["history"] = hist[-5:]
        except Exception:
            pass
    json.dump(meta, open(old, "w"), indent=1)
    print(json.dumps({k: meta.get(k) for k in ("seed", "confirmed", "patch_applies", "tests_ok", "demo_with_change_exit", "demo_without_change_exit")}))
    for c, r in meta.get("checks", {}).items():
        print(" ", c, "DETECTED" if r["detected"] else "MISSED", r["lines"][:3])
    return 0


if __name__ == "__main__":
    sys.exit(main())
