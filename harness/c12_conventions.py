"""C12 helper, run in a FRESH interpreter: naming conventions of two standard-library contexts created in one
process must not influence each other.  argv[1] = 'py-first' | 'camel-first'.  Prints a JSON list of problems.

For every registered definition of each context and every visible parameter: the keyword name (alias) must be the
context's own convention applied to the Python parameter name, unless the alias was declared explicitly (read from
the module-level master definitions BEFORE any context is created)."""
import importlib
import json
import pkgutil
import sys

import yaql                                                   # noqa: F401  (import only; creates no context)
import yaql.standard_library as SL
from yaql.language import conventions, specs, yaqltypes


def masters_explicit():
    out = set()
    for m in pkgutil.iter_modules(SL.__path__):
        mod = importlib.import_module("yaql.standard_library." + m.name)
        for obj in vars(mod).values():
            fd = getattr(obj, "__yaql_function__", None)
            if fd is None:
                continue
            for key, p in fd.parameters.items():
                if p.alias is not None:
                    out.add((getattr(obj, "__module__", "?"), getattr(obj, "__qualname__", "?"), p.name))
    return out


def walk(ctx):
    seen = set()
    c = ctx
    while c is not None:
        for name, fds in getattr(c, "_functions", {}).items():
            for fd in fds:
                if id(fd) not in seen:
                    seen.add(id(fd))
                    yield name, fd
        c = c.parent


def main():
    explicit = masters_explicit()
    convs = {"py": conventions.PythonConvention(), "camel": conventions.CamelCaseConvention()}
    order = ["py", "camel"] if sys.argv[1] == "py-first" else ["camel", "py"]
    problems = []
    ctxs = [(k, yaql.create_context(convention=convs[k])) for k in order]
    for k, ctx in ctxs:
        for name, fd in walk(ctx):
            fn = getattr(fd.payload, "__wrapped__", fd.payload)
            mod, qual = getattr(fn, "__module__", "?"), getattr(fn, "__qualname__", "?")
            for key, p in fd.parameters.items():
                if isinstance(p.value_type, yaqltypes.HiddenParameterType) or key in ("*", "**"):
                    continue
                if (mod, qual, p.name) in explicit:
                    continue
                want = specs.convert_parameter_name(p.name, convs[k])
                if p.alias != want:
                    problems.append({"context_convention": k, "created": order.index(k) + 1, "function": name,
                                     "payload": "%s.%s" % (mod, qual), "parameter": p.name, "alias": p.alias, "required": want})
    print(json.dumps(problems[:50]))


if __name__ == "__main__":
    main()
