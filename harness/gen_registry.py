"""Gen/Registry.v: every FunctionDefinition of yaql.create_context() with its parameters' names,
aliases (as registered), aliases explicitly declared on the payload, hidden / star flags.
Obtained by introspection of the live objects."""
import gal
import yaql
from yaql.language import expressions, specs, utils, yaqltypes

OUTPUT = "Registry.v"


def ordered_defs(ctx):
    """every FunctionDefinition of the context chain in a deterministic order: [(fd, layer)]"""
    out, layer = [], 0
    while ctx is not None:
        for name in sorted(ctx._functions):
            fds = sorted(ctx._functions[name], key=lambda fd: (fd.payload.__module__, fd.payload.__qualname__,
                                                                  getattr(fd.payload, "__code__", None) and fd.payload.__code__.co_firstlineno or 0,
                                                                  sorted(fd.parameters)))
            out += [(fd, layer) for fd in fds]
        ctx = ctx.parent
        layer += 1
    return out


class _ProbeExpr(expressions.Expression):
    uses_receiver = False

    def __call__(self, receiver, context, engine):
        return None


class Model:
    """the registry in the vocabulary of Model/Resolution.v: name codes, python-type tags with their strict
    subclass pairs, and per parameter the answers of the live check() to representative arguments"""

    def __init__(self, ctx=None):
        import registry_corpus as rcorp
        self.rcorp = rcorp
        self.ctx = ctx if ctx is not None else yaql.create_context()
        self.engine = yaql.YaqlFactory().create()
        self.defs = ordered_defs(self.ctx)
        names = set()
        for fd, _ in self.defs:
            for p in fd.parameters.values():
                names.add(p.name)
                if p.alias:
                    names.add(p.alias)
        self.names = {n: 1000 + i for i, n in enumerate(sorted(names))}
        pts = []
        for fd, _ in self.defs:
            for p in fd.parameters.values():
                t = p.value_type
                if isinstance(t, yaqltypes.PythonType) and isinstance(t.python_type, type) and t.python_type not in pts:
                    pts.append(t.python_type)
        pts.sort(key=lambda c: (c.__module__, c.__qualname__))
        self.pytags = {c: i + 1 for i, c in enumerate(pts)}
        self.sub_pairs = sorted((self.pytags[a], self.pytags[b]) for a in pts for b in pts
                                if a is not b and issubclass(a, b) and not issubclass(b, a))

    def ncode(self, name):
        return self.names[name]

    def _check(self, t, value):
        try:
            return bool(t.check(value, self.ctx, self.engine))
        except Exception:
            return False

    def kind(self, p):
        t = p.value_type
        if isinstance(t, yaqltypes.HiddenParameterType):
            return "(KHidden %s)" % ("HEngine" if isinstance(t, yaqltypes.Engine) else
                                     "HContext" if isinstance(t, yaqltypes.Context) else "HOther")
        rc = self.rcorp
        accr, accc = [], []
        for c in sorted(rc.CLASSES):
            if c != rc.KEYWORD_CLASS and self._check(t, rc.make(c)):
                accr.append(c)
            const = expressions.KeywordConstant(rc.make(c)) if c == rc.KEYWORD_CLASS else expressions.Constant(rc.make(c))
            if self._check(t, const):
                accc.append(c)
        if p.default is not specs.NO_DEFAULT and p.default is not None and p.default is not utils.NO_VALUE \
                and self._check(t, p.default):
            accr.append(rc.DEFAULT_CLASS)
        st = "None"
        if isinstance(t, yaqltypes.PythonType) and isinstance(t.python_type, type):
            st = "(Some %d%%nat)" % self.pytags[t.python_type]
        mapping = expressions.MappingRuleExpression(expressions.KeywordConstant("k"), expressions.Constant(1))
        return "(KProbed %s %s %s %s %s %s %s %s %s true)" % (
            gal.boolean(isinstance(t, yaqltypes.LazyParameterType)), gal.natlist(accr), gal.natlist(accc),
            gal.boolean(self._check(t, None)), gal.boolean(self._check(t, expressions.Constant(None))),
            gal.boolean(self._check(t, utils.NO_VALUE)), gal.boolean(self._check(t, _ProbeExpr())),
            gal.boolean(self._check(t, mapping)), st)

    def param(self, key, p):
        if p.default is specs.NO_DEFAULT:
            d = "None"
        elif p.default is None:
            d = "(Some VNull)"
        elif p.default is utils.NO_VALUE:
            d = "(Some VMarker)"
        else:
            d = "(Some (VObj %d%%nat))" % self.rcorp.DEFAULT_CLASS
        return "{| pname := %s; palias := %s; ppos := %s; pdefault := %s; pkind := %s; pstar := %s |}" % (
            gal.z(self.ncode(p.name)), "(Some %s)" % gal.z(self.ncode(p.alias)) if p.alias else "None",
            "None" if p.position is None else "(Some %d%%nat)" % p.position, d, self.kind(p),
            "SArgs" if key == "*" else "SKwargs" if key == "**" else "SNone")

    def fdef(self, idx, fd):
        return "{| fid := %s; fparams := %s; fnokw := %s; fisfun := %s; fismeth := %s |}" % (
            gal.z(idx), gal.lst(self.param(k, p) for k, p in fd.parameters.items()),
            gal.boolean(fd.no_kwargs), gal.boolean(fd.is_function), gal.boolean(fd.is_method))


def rows():
    ctx = yaql.create_context()
    out, layer = [], 0
    while ctx is not None:
        for name in sorted(ctx._functions):
            fds = sorted(ctx._functions[name], key=lambda fd: (fd.payload.__module__, fd.payload.__qualname__,
                                                                  getattr(fd.payload, "__code__", None) and fd.payload.__code__.co_firstlineno or 0,
                                                                  sorted(fd.parameters)))
            for fd in fds:
                orig = getattr(fd.payload, "__yaql_function__", None)
                ps = []
                for key, p in fd.parameters.items():
                    declared = None
                    if orig is not None and key in orig.parameters:
                        declared = orig.parameters[key].alias
                    ps.append((p.name, p.alias or "", declared,
                               isinstance(p.value_type, yaqltypes.HiddenParameterType), key in ("*", "**")))
                out.append((fd.name, bool(fd.is_function), bool(fd.is_method), ps, layer))
        ctx = ctx.parent
        layer += 1
    return out


def generate():
    rs = rows()
    lines = ["(* GENERATED by harness/gen_registry.py from the live yaql.create_context(); do not edit *)",
             "From Coq Require Import List ZArith Bool.", "From YV Require Import Common.Corr Model.Naming Model.Resolution.",
             "Import ListNotations.", "Local Open Scope Z_scope.", "", "Definition registry : list rdef := ["]
    items = []
    for name, isf, ism, ps, layer in rs:
        pt = gal.lst("{| r_name := %s; r_alias := %s; r_declared := %s; r_hidden := %s; r_star := %s |}" % (
            gal.s(n), gal.s(a), "None" if d is None else "(Some %s)" % gal.s(d), gal.boolean(h), gal.boolean(st))
            for n, a, d, h, st in ps)
        items.append("  {| r_fname := %s; r_isfun := %s; r_ismeth := %s; r_params := %s |}" % (
            gal.s(name), gal.boolean(isf), gal.boolean(ism), pt))
    lines.append(";\n".join(items))
    lines.append("].")
    lines.append("Definition registry_size : nat := %d." % len(rs))
    lines.append("Example registry_size_ok : length registry = registry_size. Proof. reflexivity. Qed.")
    m = Model()
    lines.append("")
    lines.append("(* the same definitions in the vocabulary of Model/Resolution.v (fid = index in this list) *)")
    lines.append("Definition reg_fdefs : list fdef := [")
    lines.append(";\n".join("  " + m.fdef(i, fd) for i, (fd, _) in enumerate(m.defs)))
    lines.append("].")
    lines.append("Definition reg_layers : list nat := %s." % gal.natlist(l for _, l in m.defs))
    lines.append("(* strict subclass pairs between the python classes that PythonType parameters name *)")
    lines.append("Definition reg_sub_pairs : list (nat * nat) := %s." % gal.lst("(%d, %d)%%nat" % ab for ab in m.sub_pairs))
    lines.append("Definition reg_sub (a b : nat) : bool := existsb (fun ab => Nat.eqb (fst ab) a && Nat.eqb (snd ab) b) reg_sub_pairs.")
    lines.append("Example reg_fdefs_size_ok : length reg_fdefs = registry_size. Proof. reflexivity. Qed.")
    return "\n".join(lines) + "\n"
