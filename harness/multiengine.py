"""Several engines with different operator tables in ONE process (C16): what a word
denotes must depend only on the engine that reads it, not on what other engines of
the process have read before.

Run as a script: reads a scenario (JSON) on stdin, executes it in this fresh process
and prints the list of failures (JSON).  A scenario is
  {"engines": [spec...], "order": [index...], "words": [word...]}
spec = {"label", "base": "default"|"legacy", "keyword_operator": "=>"|null,
        "insert": [[existing, existing_is_binary, word, "binary"|"binary_right"|"prefix"|"suffix", new_group]...],
        "remove": [word...]}
For every engine in `order`: first its own word operators are used in expressions,
then every word of the pool is read by it and compared with what the language
reference says for THAT engine (the expectation is computed from the spec alone)."""
import json
import sys

DEFAULT_WORD_OPS = {"mod": "binary", "in": "binary", "and": "binary", "or": "binary", "not": "prefix"}
JSON_WORDS = {"true": True, "false": False, "null": None}

ENGINES = [
    {"label": "default", "base": "default", "keyword_operator": "=>", "insert": [], "remove": []},
    {"label": "legacy", "base": "legacy", "keyword_operator": None, "insert": [], "remove": []},
    {"label": "contains", "base": "default", "keyword_operator": "=>",
     "insert": [["in", True, "contains", "binary", False]], "remove": []},
    {"label": "prefix+suffix", "base": "default", "keyword_operator": "=>",
     "insert": [["not", False, "negate", "prefix", False], [None, True, "exists", "suffix", True]], "remove": []},
    {"label": "no-in", "base": "default", "keyword_operator": "=>", "insert": [], "remove": ["in"]},
    {"label": "no-and-or-not", "base": "default", "keyword_operator": "=>", "insert": [], "remove": ["and", "or", "not"]},
    {"label": "no-keyword-operator", "base": "default", "keyword_operator": None, "insert": [], "remove": ["mod"]},
    {"label": "within-first", "base": "default", "keyword_operator": "=>",
     "insert": [[".", True, "within", "binary_right", True], ["in", True, "mod2", "binary", False]], "remove": []},
]

ENGINES += [
    {"label": "is+xor", "base": "default", "keyword_operator": "=>",
     "insert": [["in", True, "is", "binary", False], ["or", True, "xor", "binary", False]], "remove": []},
    {"label": "legacy+isnt", "base": "legacy", "keyword_operator": None,
     "insert": [["not", False, "isnt", "prefix", False]], "remove": []},
]

# factory.operators is a public list: hosts also edit it directly.  These factories hand out one engine first, are then
# edited in place (rows removed / appended by hand) and asked for another engine, which is the one under test.
ENGINES += [
    {"label": "created, then `in` and `mod` removed from factory.operators", "base": "default", "keyword_operator": "=>",
     "insert": [], "remove": [], "post_create_remove": ["in", "mod"], "post_create_append": []},
    {"label": "created, then `=~` `?.` `not` removed from factory.operators", "base": "default", "keyword_operator": "=>",
     "insert": [], "remove": [], "post_create_remove": ["=~", "?.", "not"], "post_create_append": []},
    {"label": "created, then rows `otherwise` and `<>` appended to factory.operators", "base": "default", "keyword_operator": "=>",
     "insert": [["in", True, "contains", "binary", False]], "remove": [], "post_create_remove": ["contains"],
     "post_create_append": [["otherwise", "binary"], ["<>", "binary"]]},
]

PLAIN_WORDS = ["a", "abc", "x1", "_x", "True", "nul", "inn", "And", "containss", "résumé", "x__y"]


def word_ops(spec):
    ops = dict(DEFAULT_WORD_OPS)
    for w in spec["remove"]:
        ops.pop(w, None)
    for _, _, w, kind, _ in spec["insert"]:
        ops[w] = "binary" if kind.startswith("binary") else kind
    for w in spec.get("post_create_remove", []):
        ops.pop(w, None)
    for w, kind in spec.get("post_create_append", []):
        if w.isidentifier():
            ops[w] = "binary" if kind.startswith("binary") else kind
    return ops


def pool(specs, extra=()):
    words = []
    for s in specs:
        for w in list(word_ops(s)) + s["remove"] + [x for x in s.get("post_create_remove", []) if x.isidentifier()]:
            if w not in words:
                words.append(w)
    for w in list(DEFAULT_WORD_OPS) + list(JSON_WORDS) + PLAIN_WORDS + list(extra):
        if w not in words:
            words.append(w)
    return words


def build(spec):
    import yaql.legacy
    from yaql.language import factory
    ot = factory.OperatorType
    kinds = {"binary": ot.BINARY_LEFT_ASSOCIATIVE, "binary_right": ot.BINARY_RIGHT_ASSOCIATIVE,
             "prefix": ot.PREFIX_UNARY, "suffix": ot.SUFFIX_UNARY}
    if spec["base"] == "legacy":
        f = yaql.legacy.YaqlFactory()
    else:
        f = factory.YaqlFactory(keyword_operator=spec["keyword_operator"])
    if spec["remove"]:
        f.operators = [op for op in f.operators if not op or op[0] not in spec["remove"]]
    for existing, is_binary, word, kind, group in spec["insert"]:
        f.insert_operator(existing, is_binary, word, kinds[kind], group)
    if spec.get("post_create_remove") or spec.get("post_create_append"):
        f.create()                                  # an engine is handed out first ...
        for sym in spec.get("post_create_remove", []):
            for row in [r for r in f.operators if r and r[0] == sym]:
                f.operators.remove(row)              # ... then the public list is edited in place
        for sym, kind in spec.get("post_create_append", []):
            f.operators.append(())
            f.operators.append((sym, kinds[kind]))
    return f.create()


def describe(engine, text, context=None):
    """Canonical description of what `text` denotes for `engine`."""
    from yaql.language import exceptions, expressions
    try:
        e = engine(text).expression
    except exceptions.YaqlLexicalException:
        return ["lexical-error"]
    except exceptions.YaqlGrammarException:
        return ["grammar-error"]
    except Exception as ex:      # noqa
        return ["foreign", type(ex).__name__]
    return tree(e, expressions)


def tree(e, expressions):
    if isinstance(e, expressions.KeywordConstant):
        return ["keyword", e.value]
    if isinstance(e, expressions.Constant):
        v = e.value
        return ["constant", type(v).__name__, v if not isinstance(v, float) else v.hex()]
    if isinstance(e, (expressions.BinaryOperator, expressions.UnaryOperator)):
        return [type(e).__name__, e.operator] + [tree(a, expressions) for a in e.args]
    if isinstance(e, expressions.ListExpression):
        return ["list"] + [tree(a, expressions) for a in e.args]
    return [type(e).__name__]


def expectations(spec, words):
    """[(text, expected description)] for one engine, from the spec alone."""
    ops = word_ops(spec)
    out = []
    for w, kind in ops.items():                       # the engine's own word operators work
        if kind == "binary":
            out.append(("p %s q" % w, ["BinaryOperator", w, ["keyword", "p"], ["keyword", "q"]]))
        elif kind == "prefix":
            out.append(("%s p" % w, ["UnaryOperator", w, ["keyword", "p"]]))
        else:
            out.append(("p %s" % w, ["UnaryOperator", w, ["keyword", "p"]]))
    for w in words:
        if w in JSON_WORDS:
            v = JSON_WORDS[w]
            out.append((w, ["constant", type(v).__name__, v]))
            out.append(("[%s, 1]" % w, ["list", ["constant", type(v).__name__, v], ["constant", "int", 1]]))
        elif w in ops:
            out.append((w, ["grammar-error"]))             # an operator alone is not a value
        else:
            out.append((w, ["keyword", w]))                # any other word denotes its own text
            out.append(("[%s, 1]" % w, ["list", ["keyword", w], ["constant", "int", 1]]))
        out.append(("'%s'" % w, ["constant", "str", w]))   # strings and numbers are never affected
    for sym in spec.get("post_create_remove", []):
        if not sym.isidentifier():
            out.append(("p %s q" % sym, ["lexical-error"]))   # the symbol is not a token of this engine any more
    for sym, kind in spec.get("post_create_append", []):
        if not sym.isidentifier():
            out.append(("p %s q" % sym, ["BinaryOperator", sym, ["keyword", "p"], ["keyword", "q"]]))
    out.append(("12", ["constant", "int", 12]))
    out.append(("1.5", ["constant", "float", (1.5).hex()]))
    out.append(('"in"', ["constant", "str", "in"]))
    return out


def run_scenario(scn):
    import yaql
    specs = scn["engines"]
    engines = {}
    failures, used = [], []
    ctx = yaql.create_context()
    for i in scn["order"]:
        spec = specs[i]
        if i not in engines:
            engines[i] = build(spec)
        eng = engines[i]
        for text, want in expectations(spec, scn["words"]):
            got = describe(eng, text)
            if got != want:
                failures.append({"engine": spec["label"], "engine_index": i, "text": text, "expected": want, "observed": got,
                                 "engines_used_before": list(used)})
            elif want[0] == "keyword" and spec["base"] != "legacy":
                try:
                    v = eng(text).evaluate(context=ctx)
                except Exception as ex:   # noqa
                    v = "raised " + type(ex).__name__
                if v != want[1]:
                    failures.append({"engine": spec["label"], "engine_index": i, "text": text, "expected": ["evaluates to", want[1]],
                                     "observed": ["evaluates to", repr(v)], "engines_used_before": list(used)})
        used.append(spec["label"])
    return failures


def totality_texts(words):
    """every word of every operator table seen in the process, as a plain identifier, a member name, a method name, a
    keyword-argument name, an operand, a function argument ..."""
    out = []
    for w in words:
        out += [w, "$." + w, "$." + w + "()", "x." + w + ".y", "dict(" + w + " => 1)", "f(" + w + " => " + w + ")", "a " + w + " b",
                w + " 1", "1 " + w, "(" + w + " 1)", "[" + w + ", " + w + "]", "f(" + w + " $)", w + " " + w + " " + w, w + "(1)",
                "not " + w, "- " + w, "{" + w + " => " + w + "}", "$x -> " + w, w + " and " + w + " or not " + w]
    return out


def totality_failure(engine, text):
    """None, or why engine(text) fails C03's predicate"""
    from yaql.language import exceptions, expressions
    try:
        r = engine(text)
    except exceptions.YaqlParsingException as e:
        pos = getattr(e, "position", None)
        if pos is not None and not (isinstance(pos, int) and 0 <= pos < len(text)):
            return "reported error position %r is outside the text of length %d" % (pos, len(text))
        return None
    except BaseException as e:    # noqa
        return "an exception that is not a YaqlParsingException escapes the parser: %s" % type(e).__name__
    if not isinstance(r, expressions.Statement):
        return "engine(text) returned %r" % type(r).__name__
    return None


def run_totality(scn):
    """engines of different factories created in `order` in this process; every engine is tested right after its creation
    and again after all the others exist"""
    specs = scn["engines"]
    texts = totality_texts(scn["words"]) + list(scn.get("texts", []))
    engines, failures, created = {}, [], []
    for phase in ("as created", "after all were created"):
        for i in scn["order"]:
            if i not in engines:
                engines[i] = build(specs[i])
                created.append(specs[i]["label"])
            for t in texts:
                why = totality_failure(engines[i], t)
                if why:
                    failures.append({"engine": specs[i]["label"], "engine_index": i, "text": t, "why": why, "phase": phase,
                                     "engines_created_so_far": list(created)})
                    break
    return failures


if __name__ == "__main__":
    import warnings
    warnings.simplefilter("ignore")
    scenario = json.load(sys.stdin)
    json.dump(run_totality(scenario) if scenario.get("mode") == "totality" else run_scenario(scenario), sys.stdout)
