"""Gen/ScalarOps.v - the scalar-operator overload table, extracted from the LIVE registry.

For every overload registered in yaql.create_context() under the operator names of C15:
 * whether `map_args` succeeds on unevaluated variable expressions (`$a OP $b`), the lazy
   positions of the mapping and `no_kwargs` (what the first loop of runner.choose_overload
   looks at);
 * per positional argument an acceptance row: the live `value_type.check(value, context,
   engine)` on representatives of each model kind (all representatives of a kind must agree);
 * the payload tag, mapped from the payload function's module and qualified name;
 * the pairwise specialization relation on the mappings, computed by the runner's own
   `_is_specialization_of` when it exists (else by the same rule over
   `value_type.is_specialization_of`).
Nothing is read from source text."""
import datetime

import yaql
from yaql.language import runner, utils, yaqltypes

OUTPUT = "ScalarOps.v"

OPS = [  # (model constructor, registry name, arity, yaql spelling)
    ("OAdd", "#operator_+", 2, "+"), ("OSub", "#operator_-", 2, "-"), ("OMul", "#operator_*", 2, "*"),
    ("ODiv", "#operator_/", 2, "/"), ("OMod", "#operator_mod", 2, "mod"),
    ("OLt", "#operator_<", 2, "<"), ("OLe", "#operator_<=", 2, "<="), ("OGt", "#operator_>", 2, ">"),
    ("OGe", "#operator_>=", 2, ">="), ("OIn", "#operator_in", 2, "in"),
    ("OEq", "*equal", 2, "="), ("ONeq", "*not_equal", 2, "!="),
    ("UPos", "#unary_operator_+", 1, "+"), ("UNeg", "#unary_operator_-", 1, "-"),
    ("UNot", "#unary_operator_not", 1, "not"),
]

CONFIGS = ["CDefault", "CIterDicts", "CLegacy", "CQuota"]


def make_config(cfg):
    """(context, engine) of a configuration whose options touch dispatch"""
    if cfg == "CDefault":
        return yaql.create_context(), yaql.YaqlFactory().create()
    if cfg == "CIterDicts":
        return yaql.create_context(), yaql.YaqlFactory().create({"yaql.iterableDicts": True})
    if cfg == "CLegacy":
        from yaql import legacy
        return legacy.create_context(), legacy.YaqlFactory().create()
    if cfg == "CQuota":
        return yaql.create_context(), yaql.YaqlFactory().create({"yaql.memoryQuota": 20000, "yaql.limitIterators": 1000})
    raise ValueError(cfg)


KINDS = ["KNull", "KBool", "KInt", "KFloat", "KStr", "KList", "KTuple", "KDict", "KSet", "KDateTime", "KTimespan"]


def representatives():
    utc = datetime.timezone.utc
    return {
        "KNull": [None],
        "KBool": [True, False],
        "KInt": [0, 1, -1, 2 ** 63 + 1, -(10 ** 40)],
        "KFloat": [0.0, -0.0, 1.5, -1e308, 5e-324],
        # (strings stay strings whatever they look like: dates, numerals, keywords, durations)
        "KStr": ["", "a", "añ\U0001F600", "1999-12-31", "2021-03-04T05:06:07+02:00", "20210304", "12", "1e3", "true", "null", "P1D", "1:00:00"],
        "KList": [[], [1, 2]],
        "KTuple": [(), (1, 2)],
        "KDict": [{}, {"a": 1}, utils.FrozenDict({"a": 1})],
        "KSet": [set(), {1}, frozenset([1])],
        "KDateTime": [datetime.datetime(2020, 1, 2, 3, 4, 5, tzinfo=utc)],
        "KTimespan": [datetime.timedelta(0), datetime.timedelta(seconds=5)],
    }


_CMP = {"lt": "CLt", "lte": "CLe", "gt": "CGt", "gte": "CGe"}
_TAGS = {
    ("yaql.standard_library.math", "binary_plus"): "PNumAdd",
    ("yaql.standard_library.math", "binary_minus"): "PNumSub",
    ("yaql.standard_library.math", "multiplication"): "PNumMul",
    ("yaql.standard_library.math", "division"): "PNumDiv",
    ("yaql.standard_library.math", "modulo"): "PNumMod",
    ("yaql.standard_library.math", "unary_plus"): "PNumPos",
    ("yaql.standard_library.math", "unary_minus"): "PNumNeg",
    ("yaql.standard_library.strings", "concat"): "PStrConcat",
    ("yaql.standard_library.strings", "string_by_int"): "PStrRep",
    ("yaql.standard_library.strings", "int_by_string"): "PRepStr",
    ("yaql.standard_library.strings", "in_"): "PStrIn",
    ("yaql.standard_library.common", "eq"): "PEq",
    ("yaql.standard_library.common", "neq"): "PNeq",
    ("yaql.standard_library.boolean", "not_"): "PNot",
    ("yaql.standard_library.collections", "list_by_int"): "PSeqRep",
    ("yaql.standard_library.collections", "int_by_list"): "PRepSeq",
    ("yaql.standard_library.collections", "in_"): "PCollIn",
    ("yaql.standard_library.collections", "combine_lists"): "PSeqConcat",
    ("yaql.standard_library.collections", "difference"): "PSetDiff",
    ("yaql.standard_library.collections", "combine_dicts"): "PDictAdd",
}
for _n, _c in _CMP.items():
    _TAGS[("yaql.standard_library.math", _n)] = "(PNumCmp %s)" % _c
    _TAGS[("yaql.standard_library.strings", _n)] = "(PStrCmp %s)" % _c
    _TAGS[("yaql.standard_library.collections", "set_" + _n)] = "(PSetCmp %s)" % _c
    _TAGS[("yaql.standard_library.common", "left_%s_null" % _n)] = "(PLeftNull %s)" % _c
    _TAGS[("yaql.standard_library.common", "null_%s_right" % _n)] = "(PNullRight %s)" % _c
    _TAGS[("yaql.standard_library.common", "null_%s_null" % _n)] = "(PNullNull %s)" % _c

_other = {}
_nonuniform = []


def payload_key(payload):
    payload = getattr(payload, "__c15_original__", payload)
    return (getattr(payload, "__module__", "?"), getattr(payload, "__qualname__", repr(payload)))


_ALL = frozenset(KINDS)
_SETS = {"NUM": frozenset(["KInt", "KFloat"]), "STR": frozenset(["KStr"]), "INT": frozenset(["KInt"]),
         "SEQ": frozenset(["KList", "KTuple"]), "NULL": frozenset(["KNull"]),
         "SET": frozenset(["KSet"]), "DICT": frozenset(["KDict"]),
         "NONNULL": _ALL - frozenset(["KNull"]), "ANY": _ALL}
_ROLES = {
    ("#operator_+", ("NUM", "NUM")): "PNumAdd", ("#operator_+", ("STR", "STR")): "PStrConcat",
    ("#operator_-", ("NUM", "NUM")): "PNumSub", ("#operator_*", ("NUM", "NUM")): "PNumMul",
    ("#operator_*", ("STR", "INT")): "PStrRep", ("#operator_*", ("INT", "STR")): "PRepStr",
    ("#operator_*", ("SEQ", "INT")): "PSeqRep", ("#operator_*", ("INT", "SEQ")): "PRepSeq",
    ("#operator_/", ("NUM", "NUM")): "PNumDiv", ("#operator_mod", ("NUM", "NUM")): "PNumMod",
    ("#operator_in", ("STR", "STR")): "PStrIn", ("*equal", ("ANY", "ANY")): "PEq", ("*not_equal", ("ANY", "ANY")): "PNeq",
    ("#unary_operator_+", ("NUM",)): "PNumPos", ("#unary_operator_-", ("NUM",)): "PNumNeg",
    ("#unary_operator_not", ("ANY",)): "PNot",
    ("#operator_-", ("SET", "SET")): "PSetDiff", ("#operator_+", ("DICT", "DICT")): "PDictAdd",
}
for _sp, _c in (("<", "CLt"), ("<=", "CLe"), (">", "CGt"), (">=", "CGe")):
    _ROLES[("#operator_" + _sp, ("NUM", "NUM"))] = "(PNumCmp %s)" % _c
    _ROLES[("#operator_" + _sp, ("STR", "STR"))] = "(PStrCmp %s)" % _c
    _ROLES[("#operator_" + _sp, ("SET", "SET"))] = "(PSetCmp %s)" % _c
    _ROLES[("#operator_" + _sp, ("NONNULL", "NULL"))] = "(PLeftNull %s)" % _c
    _ROLES[("#operator_" + _sp, ("NULL", "NONNULL"))] = "(PNullRight %s)" % _c
    _ROLES[("#operator_" + _sp, ("NULL", "NULL"))] = "(PNullNull %s)" % _c


def tag_of(payload, opname=None, rows=None):
    """Gallina term of the payload tag of an overload: by the payload function's module and
    qualified name; a function the map does not know (renamed, moved) is recognised by its
    role - the operator it is registered under and the exact kinds its parameters accept;
    anything else is POther n (dispatch only)."""
    key = payload_key(payload)
    if key in _TAGS:
        return _TAGS[key]
    if opname is not None and rows:
        sig = []
        for row in rows:
            acc = frozenset(k for k, ok in zip(KINDS, row) if ok)
            sig.append(next((n for n, s in _SETS.items() if s == acc), None))
        role = _ROLES.get((opname, tuple(sig)))
        if role is not None:
            return role
    if key not in _other:
        _other[key] = len(_other)
    return "(POther %d)" % _other[key]


def operator_layers(context, name):
    """Layers of overloads as runner.call collects them for an operator call (no receiver);
    inside a layer the order is made deterministic (the runner iterates a set)."""
    layers = context.collect_functions(name, lambda fd, ctx: fd.is_function)
    return [sorted(layer, key=lambda fd: payload_key(fd.payload)) for layer in layers]


def variable_args(engine, arity):
    stmt = engine("$a + $b" if arity == 2 else "-$a")
    expr = getattr(stmt, "expression", None) or getattr(stmt, "_parsed_expression")
    args = tuple(expr.args)
    assert len(args) == arity
    return args


def is_specialization(m1, m2):
    f = getattr(runner, "_is_specialization_of", None)
    if f is not None:
        try:
            return bool(f(m1, m2))
        except TypeError:
            # PythonType.is_specialization_of raises for a tuple-typed parameter (Number) against
            # an ABC-typed one; such a pair never accepts the same arguments (C15_dispatch_unique),
            # so the runner never asks.  Recorded as "not a specialization".
            return False
    res = False
    for a1, a2 in zip(m1[0], m2[0]):
        if a2.value_type.is_specialization_of(a1.value_type):
            return False
        if a1.value_type.is_specialization_of(a2.value_type):
            res = True
    return res


def describe(context, engine, name, arity):
    """[[dict per overload] per layer], spec pairs"""
    reps = representatives()
    args = variable_args(engine, arity)
    out, mappings, n = [], {}, 0
    for layer in operator_layers(context, name):
        lay = []
        for fd in layer:
            mapping = fd.map_args(args, {}, context, engine)
            d = {"id": n, "fd": fd, "tag": None, "key": payload_key(fd.payload),
                 "maps": mapping is not None, "nokw": bool(fd.no_kwargs), "lazy": [], "rows": []}
            if mapping is not None:
                pos, kwd = mapping
                assert not kwd and len(pos) == arity
                mappings[n] = mapping
                d["lazy"] = sorted(i for i, p in enumerate(pos)
                                   if isinstance(p.value_type, yaqltypes.LazyParameterType))
                for p in pos:
                    row = []
                    for k in KINDS:
                        answers = {bool(p.value_type.check(v, context, engine)) for v in reps[k]}
                        if len(answers) != 1:
                            # recorded (Gen fact gen_rows_uniform = false breaks an obligation) instead of raised, so
                            # that correspondence and oracle still run and produce the failing input
                            _nonuniform.append("parameter %r of %s.%s on %s" % (p.name, d["key"][0], d["key"][1], k))
                        row.append(True in answers)
                    d["rows"].append(row)
            d["tag"] = tag_of(fd.payload, name, d["rows"])
            lay.append(d)
            n += 1
        out.append(lay)
    spec = [(i, j) for i in sorted(mappings) for j in sorted(mappings)
            if i != j and is_specialization(mappings[i], mappings[j])]
    return out, spec


def gb(b):
    return "true" if b else "false"


def generate():
    _other.clear()
    del _nonuniform[:]
    lines = ["(* REGENERATED on every run by harness/gen_scalarops.py from the live registries of",
             "   the three configurations of Model.Scalars.cfg (default; engine option yaql.iterableDicts;",
             "   legacy factory + legacy context); do not edit. *)",
             "From Coq Require Import List ZArith Bool.",
             "From YV Require Import Model.Scalars.",
             "Import ListNotations.",
             "",
             "Definition gen_kinds : list kind := [%s]." % "; ".join(KINDS),
             ""]
    total = 0
    for cfg in CONFIGS:
        context, engine = make_config(cfg)
        for ctor, name, arity, _ in OPS:
            layers, spec = describe(context, engine, name, arity)
            lines.append("(* %s  %s *)" % (cfg, name))
            lines.append("Definition t_%s_%s : optable := {|" % (cfg, ctor))
            lays = []
            for lay in layers:
                items = []
                for d in lay:
                    total += 1
                    rows = "[" + "; ".join("[" + "; ".join(gb(x) for x in row) + "]" for row in d["rows"]) + "]"
                    items.append(
                        "    (* %s.%s *)\n    {| ov_id := %d; ov_tag := %s; ov_maps := %s; ov_nokw := %s; ov_lazy := %s;\n       ov_rows := %s |}"
                        % (d["key"][0], d["key"][1], d["id"], d["tag"], gb(d["maps"]), gb(d["nokw"]),
                           "[" + "; ".join(str(i) for i in d["lazy"]) + "]" if d["lazy"] else "(@nil nat)", rows))
                lays.append("   [\n" + ";\n".join(items) + "\n   ]")
            lines.append("  ot_layers := [\n" + ";\n".join(lays) + "\n  ];" if lays else "  ot_layers := [];")
            lines.append("  ot_spec := %s |}." % ("[" + "; ".join("(%d, %d)" % p for p in spec) + "]" if spec else "(@nil (nat * nat))"))
            lines.append("")
    lines.append("Definition registry_of (c : cfg) (o : op) : optable :=\n  match c, o with\n" +
                 "\n".join("  | %s, %s => t_%s_%s" % (cfg, c, cfg, c) for cfg in CONFIGS for c, _, _, _ in OPS) + "\n  end.")
    lines.append("")
    lines.append("Definition registry : op -> optable := registry_of CDefault.")
    lines.append("Definition n_overloads : nat := %d." % total)
    lines.append("(* does every parameter treat all representatives of a kind alike (e.g. every string as a string)? *)")
    lines.append("Definition gen_rows_uniform : bool := %s." % gb(not _nonuniform))
    for t in sorted(set(_nonuniform)):
        lines.append("(* not uniform: %s *)" % t)
    lines.append("(* payloads outside the model (dispatch only): %s *)" %
                 ", ".join("%d=%s.%s" % (i, k[0], k[1]) for k, i in sorted(_other.items(), key=lambda t: t[1])))
    return "\n".join(lines) + "\n"


if __name__ == "__main__":
    print(generate())
