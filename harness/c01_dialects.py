"""Helper process for C01's dialect histories (run in a brand-new interpreter by harness/props/c01.py).

argv[1] = JSON {"order": [dialect names], "texts": [...], "modify": bool, "warm": bool}
Creates one engine per dialect IN THE GIVEN ORDER.  With "modify", after an engine was created (and, with "warm", after
it parsed one text) its FACTORY is customised further (a new operator inserted) and a second engine is created from it:
the first engine must go on following the table it was created from.  Then every text is parsed on every first engine.
Prints JSON {dialect: {text: repr(outcome)}}."""
import json
import os
import sys

sys.path.insert(0, os.path.dirname(os.path.abspath(__file__)))
from props import c01  # noqa: E402


def make(name):
    import yaql
    from yaql import legacy
    from yaql.language.factory import OperatorType as T
    if name == "default":
        return yaql.YaqlFactory()
    if name == "delegates":
        return yaql.YaqlFactory(allow_delegates=True)
    if name == "nokw":
        return yaql.YaqlFactory(keyword_operator=None)
    if name == "legacy":
        return legacy.YaqlFactory()
    if name == "legacy-delegates":
        return legacy.YaqlFactory(allow_delegates=True)
    if name == "legacy+op":
        f = legacy.YaqlFactory()
        f.insert_operator("+", True, ":", T.BINARY_LEFT_ASSOCIATIVE, False)
        return f
    if name == "default+op":
        f = yaql.YaqlFactory()
        f.insert_operator("and", True, "&&&", T.BINARY_LEFT_ASSOCIATIVE, False)
        f.insert_operator("in", True, "is", T.BINARY_LEFT_ASSOCIATIVE, False)
        return f
    if name == "other-alias":
        return c01.other_alias_dialect()
    raise ValueError(name)


def main():
    from yaql.language.factory import OperatorType as T
    spec = json.loads(sys.argv[1])
    engines = {}
    for name in spec["order"]:
        f = make(name)
        e = f.create()
        if spec.get("warm"):
            try:
                e("1 + 2")
            except Exception:
                pass
        if spec.get("modify"):
            # the factory is customised AFTER the engine was created; the engine keeps its own table
            f.insert_operator("*", True, "%%", T.BINARY_LEFT_ASSOCIATIVE, False)
            f.insert_operator("not", False, "isnt", T.PREFIX_UNARY, False)
            try:
                f.create()
            except Exception:
                pass
        engines[name] = e
    out = {}
    for name, e in engines.items():
        out[name] = {t: repr(c01.outcome(lambda t=t: e(t))) for t in spec["texts"]}
    print(json.dumps(out))


if __name__ == "__main__":
    main()
