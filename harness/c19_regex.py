"""Helper of harness/props/c19.py: parser of the MODELLED regex language (Model/RegexEngine.v) and its
Gallina printer.  Trusted like gal.py: a wrong parse makes the modelled engine run another pattern than
CPython's re did - the engine-vs-re correspondence (mcase) of c19.py would show it.

Modelled: literals (anything but . ^ $ * + ? { } [ ] ( ) | \\), `.`, `[...]` / `[^...]` of literal characters,
`^`, `$`, concatenation, `|`, `( )`, `(?P<name> )`, `(?: )`, quantifiers ? * + {m} {m,} {m,n} and their lazy
forms.  Anything else (escapes, ranges, possessive quantifiers, look-around, back-references, inline flags)
-> Unmodelled: the pattern stays with the re oracle."""
import gal

SPECIAL = set(".^$*+?{}[]()|\\")


class Unmodelled(Exception):
    pass


class Parser:
    def __init__(self, text):
        self.t, self.i, self.ngroups, self.names = text, 0, 0, []

    def peek(self):
        return self.t[self.i] if self.i < len(self.t) else None

    def eat(self, ch):
        if self.peek() != ch:
            raise Unmodelled("expected %r at %d" % (ch, self.i))
        self.i += 1

    def alt(self):
        left = self.seq()
        if self.peek() == "|":
            self.i += 1
            return ("alt", left, self.alt())
        return left

    def seq(self):
        items = []
        while self.peek() is not None and self.peek() not in "|)":
            items.append(self.item())
        out = ("eps",)
        for it in reversed(items):
            out = it if out == ("eps",) else ("seq", it, out)
        return out

    def number(self):
        j = self.i
        while self.peek() is not None and self.peek() in "0123456789":
            self.i += 1
        if j == self.i:
            return None
        return int(self.t[j:self.i])

    def item(self):
        a = self.atom()
        c = self.peek()
        q = None
        if c == "?":
            self.i += 1
            q = (0, 1)
        elif c == "*":
            self.i += 1
            q = (0, None)
        elif c == "+":
            self.i += 1
            q = (1, None)
        elif c == "{":
            self.i += 1
            lo = self.number()
            if lo is None:
                raise Unmodelled("brace")
            if self.peek() == ",":
                self.i += 1
                hi = self.number()
            else:
                hi = lo
            self.eat("}")
            if hi is not None and hi < lo:
                raise Unmodelled("bad range")
            if lo > 50 or (hi or 0) > 50:
                raise Unmodelled("large repeat")
            q = (lo, hi)
        if q is None:
            return a
        if a[0] in ("bol", "eol"):
            raise Unmodelled("repeat of an anchor")
        greedy = True
        if self.peek() == "?":
            self.i += 1
            greedy = False
        if self.peek() is not None and self.peek() in "?*+{":
            raise Unmodelled("possessive or multiple repeat")
        return ("rep", a, q[0], q[1], greedy)

    def atom(self):
        c = self.peek()
        if c == "(":
            self.i += 1
            if self.t.startswith("?P<", self.i):
                self.i += 3
                j = self.t.find(">", self.i)
                if j < 0:
                    raise Unmodelled("name")
                name = self.t[self.i:j]
                if not name.isidentifier() or not name.isascii() or name in [n for n, _ in self.names]:
                    raise Unmodelled("name")
                self.i = j + 1
                self.ngroups += 1
                idx = self.ngroups
                self.names.append((name, idx))
                body = self.alt()
                self.eat(")")
                return ("grp", idx, body)
            if self.t.startswith("?:", self.i):
                self.i += 2
                body = self.alt()
                self.eat(")")
                return body
            if self.peek() == "?":
                raise Unmodelled("extension")
            self.ngroups += 1
            idx = self.ngroups
            body = self.alt()
            self.eat(")")
            return ("grp", idx, body)
        if c == "[":
            self.i += 1
            neg = False
            if self.peek() == "^":
                neg = True
                self.i += 1
            cs = []
            while self.peek() is not None and self.peek() != "]":
                ch = self.peek()
                if ch in "\\[-" or ord(ch) > 127:
                    raise Unmodelled("class syntax")
                cs.append(ord(ch))
                self.i += 1
            self.eat("]")
            if not cs:
                raise Unmodelled("empty class")
            return ("cls", neg, cs)
        if c == ".":
            self.i += 1
            return ("any",)
        if c == "^":
            self.i += 1
            return ("bol",)
        if c == "$":
            self.i += 1
            return ("eol",)
        if c is None or c in SPECIAL or ord(c) > 127:
            raise Unmodelled("character %r" % (c,))
        self.i += 1
        return ("chr", ord(c))


def parse(text):
    """-> (tree, ngroups, [(name, idx)]) or raises Unmodelled."""
    p = Parser(text)
    tree = p.alt()
    if p.i != len(text):
        raise Unmodelled("trailing %r" % text[p.i:])
    return tree, p.ngroups, p.names


def modelled(text):
    try:
        parse(text)
        return True
    except Unmodelled:
        return False


def re_term(t):
    k = t[0]
    if k == "eps":
        return "Eps"
    if k == "chr":
        return "(Chr %s)" % gal.z(t[1])
    if k == "any":
        return "Any"
    if k == "cls":
        return "(Cls %s %s)" % (gal.boolean(t[1]), gal.zlist(t[2]))
    if k == "bol":
        return "Bol"
    if k == "eol":
        return "Eol"
    if k == "seq":
        return "(Seq %s %s)" % (re_term(t[1]), re_term(t[2]))
    if k == "alt":
        return "(Alt %s %s)" % (re_term(t[1]), re_term(t[2]))
    if k == "rep":
        return "(Rep %s %s %s %s)" % (re_term(t[1]), gal.nat(t[2]), gal.opt(t[3], gal.nat), gal.boolean(t[4]))
    if k == "grp":
        return "(Grp %s %s)" % (gal.nat(t[1]), re_term(t[2]))
    raise ValueError(t)


def pattern_term(text):
    tree, n, names = parse(text)
    return "{| p_re := %s; p_groups := %s; p_names := %s |}" % (
        re_term(tree), gal.nat(n), gal.lst(gal.pair(gal.s(nm), gal.nat(i)) for nm, i in names))


def flags_term(fl):
    return "{| ignore_case := %s; multi_line := %s; dot_all := %s |}" % tuple(gal.boolean(b) for b in fl)
