"""Helper of harness/props/c19.py: parser of the MODELLED regex language (Model/RegexEngine.v) and its
Gallina printer.  Trusted like gal.py: a wrong parse makes the modelled engine run another pattern than
CPython's re did - the engine-vs-re correspondence (mcase) of c19.py would show it.

Modelled: literals (anything but . ^ $ * + ? { } [ ] ( ) | \\), `.`, `[...]` / `[^...]` of literal characters,
`^`, `$`, concatenation, `|`, `( )`, `(?P<name> )`, `(?: )`, quantifiers ? * + {m} {m,} {m,n} and their lazy
forms.  Anything else (escapes, ranges, possessive quantifiers, look-around, back-references, inline flags)
-> Unmodelled: the pattern stays with the re oracle."""
import gal

SPECIAL = set(".^$*+?{}[]()|\\")


class Unmodelled(Exception):
    pass


class Parser:
    def __init__(self, text):
        self.t, self.i, self.ngroups, self.names = text, 0, 0, []

    def peek(self):
        return self.t[self.i] if self.i < len(self.t) else None

    def eat(self, ch):
        if self.peek() != ch:
            raise Unmodelled("expected %r at %d" % (ch, self.i))
        self.i += 1

    def alt(self):
        left = self.seq()
        if self.peek() == "|":
            self.i += 1
            return ("alt", left, self.alt())
        return left

    def seq(self):
        items = []
        while self.peek() is not None and self.peek() not in "|)":
            items.append(self.item())
        out = ("eps",)
        for it in reversed(items):
            out = it if out == ("eps",) else ("seq", it, out)
        return out

    def number(self):
        j = self.i
        while self.peek() is not None and self.peek() in "0123456789":
            self.i += 1
        if j == self.i:
            return None
        return int(self.t[j:self.i])

    def item(self):
        a = self.atom()
        c = self.peek()
        q = None
        if c == "?":
            self.i += 1
            q = (0, 1)
        elif c == "*":
            self.i += 1
            q = (0, None)
        elif c == "+":
            self.i += 1
            q = (1, None)
        elif c == "{":
            self.i += 1
            lo = self.number()
            if lo is None:
                raise Unmodelled("brace")
            if self.peek() == ",":
                self.i += 1
                hi = self.number()
            else:
                hi = lo
            self.eat("}")
            if hi is not None and hi < lo:
                raise Unmodelled("bad range")
            if lo > 50 or (hi or 0) > 50:
                raise Unmodelled("large repeat")
            q = (lo, hi)
        if q is None:
            return a
        if a[0] in ("bol", "eol"):
            raise Unmodelled("repeat of an anchor")
        greedy = True
        if self.peek() == "?":
            self.i += 1
            greedy = False
        if self.peek() is not None and self.peek() in "?*+{":
            raise Unmodelled("possessive or multiple repeat")
        return ("rep", a, q[0], q[1], greedy)

    def atom(self):
        c = self.peek()
        if c == "(":
            self.i += 1
            if self.t.startswith("?P<", self.i):
                self.i += 3
                j = self.t.find(">", self.i)
                if j < 0:
                    raise Unmodelled("name")
                name = self.t[self.i:j]
                if not name.isidentifier() or not name.isascii() or name in [n for n, _ in self.names]:
                    raise Unmodelled("name")
                self.i = j + 1
                self.ngroups += 1
                idx = self.ngroups
                self.names.append((name, idx))
                body = self.alt()
                self.eat(")")
                return ("grp", idx, body)
            if self.t.startswith("?:", self.i):
                self.i += 2
                body = self.alt()
                self.eat(")")
                return body
            if self.peek() == "?":
                raise Unmodelled("extension")
            self.ngroups += 1
            idx = self.ngroups
            body = self.alt()
            self.eat(")")
            return ("grp", idx, body)
        if c == "[":
            self.i += 1
            neg = False
            if self.peek() == "^":
                neg = True
                self.i += 1
            cs = []
            while self.peek() is not None and self.peek() != "]":
                ch = self.peek()
                if ch in "\\[-" or ord(ch) > 127:
                    raise Unmodelled("class syntax")
                cs.append(ord(ch))
                self.i += 1
            self.eat("]")
            if not cs:
                raise Unmodelled("empty class")
            return ("cls", neg, cs)
        if c == ".":
            self.i += 1
            return ("any",)
        if c == "^":
            self.i += 1
            return ("bol",)
        if c == "$":
            self.i += 1
            return ("eol",)
        if c is None or c in SPECIAL or ord(c) > 127:
            raise Unmodelled("character %r" % (c,))
        self.i += 1
        return ("chr", ord(c))


def parse(text):
    """-> (tree, ngroups, [(name, idx)]) or raises Unmodelled."""
    p = Parser(text)
    tree = p.alt()
    if p.i != len(text):
        raise Unmodelled("trailing %r" % text[p.i:])
    return tree, p.ngroups, p.names


def modelled(text):
    try:
        parse(text)
        return True
    except Unmodelled:
        return False


def re_term(t):
    k = t[0]
    if k == "eps":
        return "Eps"
    if k == "chr":
        return "(Chr %s)" % gal.z(t[1])
    if k == "any":
        return "Any"
    if k == "cls":
        return "(Cls %s %s)" % (gal.boolean(t[1]), gal.zlist(t[2]))
    if k == "bol":
        return "Bol"
    if k == "eol":
        return "Eol"
    if k == "seq":
        return "(Seq %s %s)" % (re_term(t[1]), re_term(t[2]))
    if k == "alt":
        return "(Alt %s %s)" % (re_term(t[1]), re_term(t[2]))
    if k == "rep":
        return "(Rep %s %s %s %s)" % (re_term(t[1]), gal.nat(t[2]), gal.opt(t[3], gal.nat), gal.boolean(t[4]))
    if k == "grp":
        return "(Grp %s %s)" % (gal.nat(t[1]), re_term(t[2]))
    raise ValueError(t)


def pattern_term(text):
    tree, n, names = parse(text)
    return "{| p_re := %s; p_groups := %s; p_names := %s |}" % (
        re_term(tree), gal.nat(n), gal.lst(gal.pair(gal.s(nm), gal.nat(i)) for nm, i in names))


def flags_term(fl):
    return "{| ignore_case := %s; multi_line := %s; dot_all := %s |}" % tuple(gal.boolean(b) for b in fl)


# ---------------------------------------------------------------------------------------------------
# A step-counting Python twin of Model/RegexEngine.v, used ONLY as a budget filter: the Gallina engine's fuel bounds
# the depth of its recursion, not the total work, so a catastrophically backtracking pattern would make a Coq shard
# run for minutes.  Cases whose twin needs more than the budget stay with the re oracle (counted in the evidence).
# Nothing about correctness rests on this twin.
# ---------------------------------------------------------------------------------------------------
class TooSlow(Exception):
    pass


def engine_steps(tree, ngroups, fl, s, budget):
    """Number of matcher steps of finditer on s (same algorithm as the Gallina [run]/[scan]/[find_all_go]); raises
    TooSlow beyond the budget."""
    import sys
    ic, ml, da = fl
    n = len(s)
    cnt = [0]
    if sys.getrecursionlimit() < 20000:
        sys.setrecursionlimit(20000)

    def fold(c):
        return c + 32 if 65 <= c <= 90 else c

    def ceq(c, x):
        return fold(c) == fold(x) if ic else c == x

    def run(k, pos, caps, ma, start):
        # k: linked list (frame, rest) / None
        cnt[0] += 1
        if cnt[0] > budget:
            raise TooSlow()
        if k is None:
            return None if (ma and pos == start) else (pos, caps)
        fr, k1 = k
        tag = fr[0]
        if tag == "close":
            c2 = list(caps)
            if fr[1] >= 1 and fr[1] - 1 < len(c2):
                c2[fr[1] - 1] = (fr[2], pos)
            return run(k1, pos, tuple(c2), ma, start)
        if tag == "until":
            _, r, mn, mx, g, count, last = fr

            def again(lastp):
                return run((("re", r), (("until", r, mn, mx, g, count + 1, lastp), k1)), pos, caps, ma, start)
            if count < mn:
                return again(last)
            more = (mx is None or count < mx) and (last is None or last != pos)
            if g:
                if more:
                    res = again(pos)
                    return res if res is not None else run(k1, pos, caps, ma, start)
                return run(k1, pos, caps, ma, start)
            res = run(k1, pos, caps, ma, start)
            if res is not None:
                return res
            return again(pos) if more else None
        t = fr[1]
        kind = t[0]
        if kind == "eps":
            return run(k1, pos, caps, ma, start)
        if kind in ("chr", "any", "cls"):
            if pos >= n:
                return None
            x = ord(s[pos])
            if kind == "chr":
                ok = ceq(t[1], x)
            elif kind == "any":
                ok = da or x != 10
            else:
                ok = t[1] != any(ceq(c, x) for c in t[2])
            return run(k1, pos + 1, caps, ma, start) if ok else None
        if kind == "bol":
            ok = pos == 0 or (ml and s[pos - 1] == "\n")
            return run(k1, pos, caps, ma, start) if ok else None
        if kind == "eol":
            ok = pos == n or (s[pos] == "\n" and (ml or pos == n - 1))
            return run(k1, pos, caps, ma, start) if ok else None
        if kind == "seq":
            return run((("re", t[1]), (("re", t[2]), k1)), pos, caps, ma, start)
        if kind == "alt":
            res = run((("re", t[1]), k1), pos, caps, ma, start)
            return res if res is not None else run((("re", t[2]), k1), pos, caps, ma, start)
        if kind == "rep":
            return run((("until", t[1], t[2], t[3], t[4], 0, None), k1), pos, caps, ma, start)
        if kind == "grp":
            return run((("re", t[2]), (("close", t[1], pos), k1)), pos, caps, ma, start)
        raise ValueError(t)

    frm, ma = 0, False
    for _ in range(2 * n + 3):
        found = None
        p = frm
        m = ma
        while p <= n:
            r = run((("re", tree), None), p, (None,) * ngroups, m, p)
            if r is not None:
                found = (p, r[0])
                break
            p += 1
            m = False
        if found is None:
            break
        frm, ma = found[1], found[0] == found[1]
    return cnt[0]


_steps_cache = {}


def within_budget(text, fl, s, budget=60000):
    key = (text, tuple(fl), s)
    v = _steps_cache.get(key)
    if v is None:
        tree, ng, _ = parse(text)
        try:
            engine_steps(tree, ng, tuple(fl), s, budget)
            v = True
        except (TooSlow, RecursionError):
            v = False
        _steps_cache[key] = v
    return v
