"""Shared by C04 / C09 / C11 / C18: program generator for the core fragment, translation of the REAL
parse tree into the model's AST (Model/Eval.v), real evaluation with the tick probe, printers."""
import gal

HEADER = "From YV Require Import Model.Eval."

INT_VARS = ["x", "y", "z"]
LIST_VARS = ["l", "m"]
FUNCS = ["f", "g", "h"]
KEYS = ["a", "b", "c"]


# --------------------------------------------------------------------------
# generator
# --------------------------------------------------------------------------
class Gen:
    """Type-directed random programs.  env: dict name -> ('int'|'list'|'dict'|'dictlist'|('fn', arity));
    '$' is in env when a lambda parameter / the input document is in scope."""

    def __init__(self, rng, tick_p=0.0, hist=None):
        self.rng, self.tick_p, self.hist = rng, tick_p, hist if hist is not None else {}
        self.next_tick = 0

    def h(self, k):
        self.hist[k] = self.hist.get(k, 0) + 1

    def t(self, text):
        """maybe wrap an operand in the tick probe"""
        if self.rng.random() < self.tick_p:
            self.next_tick += 1
            return "tick(%d, %s)" % (self.next_tick, text)
        return text

    def tk(self, text):
        """always wrap in the tick probe"""
        self.next_tick += 1
        return "tick(%d, %s)" % (self.next_tick, text)

    def pick(self, options):
        tot = sum(w for w, _ in options)
        r = self.rng.random() * tot
        for w, f in options:
            r -= w
            if r <= 0:
                return f()
        return options[-1][1]()

    def vars_of(self, env, ty):
        return [n for n, t in env.items() if t == ty]

    # ---- ints ----
    def int_(self, env, d):
        rng = self.rng
        if d <= 0:
            vs = self.vars_of(env, "int")
            if vs and rng.random() < 0.6:
                return "$" + rng.choice(vs).replace("$", "")
            return str(rng.randrange(0, 6))
        o = [
            (2, lambda: str(rng.randrange(0, 9))),
            (3, lambda: self.var(env, "int", d)),
            (4, lambda: self.arith(env, d)),
            (2, lambda: self.h("len") or "%s.len()" % self.list_(env, d - 1)),
            (2, lambda: self.h("index") or "%s[%d]" % (self.list_lit(env, d - 1, minlen=1), rng.choice([0, 0, 1, -1, 2]))),
            (2, lambda: self.dict_access(env, d)),
            (4, lambda: self.let_(env, d, "int")),
            (3, lambda: self.def_(env, d, "int")),
            (3, lambda: self.call_fn(env, d)),
            (2, lambda: self.with_(env, d)),
            (2, lambda: self.unpack_(env, d)),
            (2, lambda: self.switch_(env, d)),
            (1, lambda: self.h("coalesce") or "coalesce(%s, %s)" % (self.t(rng.choice(["null", "$nosuch", self.int_(env, d - 1)])), self.t(self.int_(env, d - 1)))),
            (2, lambda: self.h("first") or "%s.first(%s)" % (self.list_(env, d - 1), self.t(self.int_(env, d - 1)))),
            (1, lambda: self.h("elvis") or "%s?.len()" % rng.choice(["null", "$nosuch", self.list_lit(env, d - 1)])),
            (1, lambda: self.h("andor_val") or "(%s and %s)" % (self.t(self.int_(env, d - 1)), self.t(self.int_(env, d - 1)))),
            (1, lambda: self.h("andor_val") or "(%s or %s)" % (self.t(self.int_(env, d - 1)), self.t(self.int_(env, d - 1)))),
            (1, lambda: self.h("selectCase") or "selectCase(%s)" % ", ".join(self.t(self.bool_(env, d - 1)) for _ in range(rng.randrange(1, 4)))),
            (1, lambda: self.h("switchCase") or "%s.switchCase(%s)" % (self.t(rng.choice([str(rng.randrange(-1, 4)), "(%s)" % self.int_(env, d - 1)])), ", ".join(self.t(self.int_(env, d - 1)) for _ in range(rng.randrange(1, 4))))),
        ]
        return self.pick(o)

    def var(self, env, ty, d):
        vs = self.vars_of(env, ty)
        if not vs:
            return self.int_(env, 0) if ty == "int" else self.list_lit(env, 0)
        self.h("var")
        n = self.rng.choice(vs)
        return "$" if n == "$" else "$" + n

    def arith(self, env, d):
        self.h("arith")
        op = self.rng.choice(["+", "+", "-", "*"])
        return "(%s %s %s)" % (self.t(self.int_(env, d - 1)), op, self.t(self.int_(env, d - 1)))

    def dict_access(self, env, d):
        self.h("dict_access")
        k = self.rng.choice(KEYS)
        dd = self.dict_(env, d - 1, must_have=k if self.rng.random() < 0.85 else None)
        form = self.rng.choice(["dot", "index", "get"])
        if form == "dot":
            return "%s.%s" % (dd, k)
        if form == "index":
            return "%s[%s]" % (dd, self.rng.choice(["'%s'" % k, k]))
        return "%s.get(%s, %s)" % (dd, k, self.t(self.int_(env, d - 1)))

    def let_(self, env, d, ty):
        self.h("let")
        rng = self.rng
        n = rng.choice(INT_VARS)
        env2 = dict(env)
        env2[n] = "int"
        binds = ["%s => %s" % (n, self.t(self.int_(env, d - 1)))]
        if rng.random() < 0.3:
            n2 = rng.choice(LIST_VARS)
            env2[n2] = "list"
            binds.append("%s => %s" % (n2, self.list_lit(env, d - 1)))
        if rng.random() < 0.2:
            binds.insert(0, self.t(self.int_(env, d - 1)))       # positional -> $1
            env2["1"] = "int"
            if "$" in env2 and env2["$"] != "int":
                del env2["$"]
            env2["$"] = "int"
        body = self.int_(env2, d - 1) if ty == "int" else self.list_(env2, d - 1)
        return "(let(%s) -> %s)" % (", ".join(binds), body)

    def def_(self, env, d, ty):
        self.h("def")
        rng = self.rng
        f = rng.choice(FUNCS)
        ar = rng.choice([1, 1, 2])
        benv = {k: v for k, v in env.items() if k not in ("$", "1", "2")}
        benv["$"] = "int"
        benv["1"] = "int"
        if ar == 2:
            benv["2"] = "int"
        body = self.int_(benv, d - 1)
        env2 = dict(env)
        env2[f] = ("fn", ar)
        rest = self.int_(env2, d - 1) if ty == "int" else self.list_(env2, d - 1)
        if ty == "int" and rng.random() < 0.7:
            rest = "(%s + %s)" % (self.call_fn(env2, d - 1, only=f), rest)
        return "(def(%s, %s) -> %s)" % (f, body, rest)

    def call_fn(self, env, d, only=None):
        fs = [(n, t[1]) for n, t in env.items() if isinstance(t, tuple) and (only is None or n == only)]
        if not fs:
            return self.def_(env, d, "int")
        self.h("call_fn")
        f, ar = self.rng.choice(fs)
        return "%s(%s)" % (f, ", ".join(self.t(self.int_(env, d - 1)) for _ in range(ar)))

    def with_(self, env, d):
        self.h("with")
        env2 = {k: v for k, v in env.items() if k not in ("$", "1", "2")}
        env2.update({"$": "int", "1": "int", "2": "int"})
        return "(with(%s, %s) -> %s)" % (self.t(self.int_(env, d - 1)), self.t(self.int_(env, d - 1)), self.int_(env2, d - 1))

    def unpack_(self, env, d):
        self.h("unpack")
        a, b = self.rng.sample(INT_VARS, 2)
        env2 = dict(env)
        env2[a] = env2[b] = "int"
        n = 2 if self.rng.random() < 0.9 else 3
        lst = "[%s]" % ", ".join(self.t(self.int_(env, d - 1)) for _ in range(n))
        return "(%s.unpack(%s, %s) -> %s)" % (lst, a, b, self.int_(env2, d - 1))

    def switch_(self, env, d):
        self.h("switch")
        n = self.rng.choice([1, 2, 3])
        cases = ", ".join("%s => %s" % (self.t(self.bool_(env, d - 1)), self.t(self.int_(env, d - 1))) for _ in range(n))
        return "switch(%s)" % cases

    # ---- bools ----
    def bool_(self, env, d):
        rng = self.rng
        if d <= 0:
            return rng.choice(["true", "false", "%s > %d" % (self.int_(env, 0), rng.randrange(0, 5))])
        o = [
            (4, lambda: self.h("cmp") or "%s %s %s" % (self.t(self.int_(env, d - 1)), rng.choice(["<", "<=", ">", ">=", "=", "!="]), self.t(self.int_(env, d - 1)))),
            (2, lambda: self.h("not") or "not %s" % self.t(self.bool_(env, d - 1))),
            (3, lambda: self.h("and") or "(%s and %s)" % (self.t(self.bool_(env, d - 1)), self.t(self.bool_(env, d - 1)))),
            (3, lambda: self.h("or") or "(%s or %s)" % (self.t(self.bool_(env, d - 1)), self.t(self.bool_(env, d - 1)))),
            (2, lambda: self.h("any") or "%s.%s(%s)" % (self.list_(env, d - 1), rng.choice(["any", "all"]), self.t(self.bool_(self.lam_env(env), d - 1)))),
            (1, lambda: rng.choice(["true", "false"])),
        ]
        return self.pick(o)

    def lam_env(self, env):
        env2 = {k: v for k, v in env.items() if k not in ("$", "1", "2")}
        env2["$"] = "int"
        env2["1"] = "int"
        return env2

    # ---- lists of ints ----
    def list_lit(self, env, d, minlen=0):
        n = self.rng.randrange(minlen, 4)
        return "[%s]" % ", ".join(self.t(self.int_(env, max(0, d - 1))) for _ in range(n))

    def list_(self, env, d):
        rng = self.rng
        if d <= 0:
            vs = self.vars_of(env, "list")
            if vs and rng.random() < 0.5:
                n = rng.choice(vs)
                return "$" if n == "$" else "$" + n
            return self.list_lit(env, 0)
        o = [
            (3, lambda: self.list_lit(env, d)),
            (3, lambda: self.var(env, "list", d)),
            (4, lambda: self.h("select") or "%s.select(%s)%s" % (self.list_(env, d - 1), self.t(self.int_(self.lam_env(env), d - 1)), rng.choice(["", "", ".toList()"]))),
            (4, lambda: self.h("where") or "%s.where(%s)%s" % (self.list_(env, d - 1), self.t(self.bool_(self.lam_env(env), d - 1)), rng.choice(["", "", ".toList()"]))),
            (1, lambda: self.h("concat") or "(%s.toList() + %s.toList())" % (self.list_(env, d - 1), self.list_(env, d - 1))),
            (2, lambda: self.let_(env, d, "list")),
            (1, lambda: self.def_(env, d, "list")),
            (2, lambda: self.attribution(env, d)),
        ]
        return self.pick(o)

    def attribution(self, env, d):
        self.h("attribution")
        k = self.rng.choice(KEYS)
        vs = self.vars_of(env, "dictlist")
        if vs and self.rng.random() < 0.6:
            n = self.rng.choice(vs)
            return "%s.%s" % ("$" if n == "$" else "$" + n, k)
        items = ", ".join(self.dict_(env, d - 1, must_have=k if self.rng.random() < 0.9 else None) for _ in range(self.rng.randrange(0, 3)))
        return "[%s].%s" % (items, k)

    # ---- dicts ----
    def dict_(self, env, d, must_have=None):
        vs = self.vars_of(env, "dict")
        if vs and must_have is None and self.rng.random() < 0.4:
            n = self.rng.choice(vs)
            return "$" if n == "$" else "$" + n
        ks = [k for k in KEYS if self.rng.random() < 0.5]
        if must_have and must_have not in ks:
            ks.append(must_have)
        self.rng.shuffle(ks)
        return "{%s}" % ", ".join("%s => %s" % (k, self.t(self.int_(env, max(0, d - 1)))) for k in ks)

    def scenario(self, env, d):
        """Targeted scoping shapes with random sub-terms plugged in."""
        rng = self.rng
        self.h("scenario")
        i = lambda e=env: self.t(self.int_(e, max(0, d - 2)))
        x, y = rng.sample(INT_VARS, 2)
        f, g = rng.sample(FUNCS, 2)
        envx = dict(env); envx[x] = "int"
        lam = self.lam_env(envx)
        shapes = [
            lambda: "(let(%s => %s) -> def(%s, $1 + $%s) -> let(%s => %s) -> %s(%s))" % (x, i(), f, x, x, i(), f, i(envx)),
            lambda: "%s.select(let(%s => $) -> %s.select($ * 10 + $%s).toList()).toList()" % (self.list_lit(env, 1), x, self.list_lit(env, 1), x),
            lambda: "(def(%s, $1 * 2) -> def(%s, %s($1) + 1) -> def(%s, 0) -> [%s(%s), %s(%s)])" % (f, g, f, f, g, i(), f, i()),
            lambda: "[let(%s => %s) -> $%s, $%s, $nosuch]" % (x, i(), x, x),
            lambda: "(def(%s, switch($1 <= 0 => 0, true => $1 + %s($1 - 1))) -> %s(%d))" % (f, f, f, rng.randrange(0, 6)),
            lambda: "%s.select([$, %s.select($ + 1).toList(), $]).toList()" % (self.list_lit(env, 1), self.list_lit(env, 1)),
            lambda: "(let(%s => %s) -> %s.where($ > $%s).select($ + $%s))" % (x, i(), self.list_lit(env, 1), x, x),
            lambda: "(with(%s, %s) -> [$, $1, $2, %s.select($ + $2).toList()])" % (i(), i(), self.list_lit(env, 1)),
            lambda: "(let(%s => 1) -> [let(%s => 2) -> $%s, $%s, let(%s => 3, %s => 4) -> $%s + $%s])" % (x, x, x, x, x, y, x, y),
            lambda: "(def(%s, $1 + 1) -> %s.select(%s($)).where(%s($) > %s))" % (f, self.list_lit(env, 1), f, f, i()),
            lambda: "(let(%s => %s) -> def(%s, let(%s => $1) -> $%s + $%s) -> [%s(%s), $%s])" % (x, i(), f, y, x, y, f, i(), y),
            lambda: "(let(1, 2) -> [$, $1, $2, let(9) -> $, %s.select($).toList()])" % self.list_lit(env, 1),
            # one closure invoked several times with different numbers / kinds of arguments
            lambda: "(def(%s, [$1, $2]) -> [%s(%s, %s), %s(%s), %s()])" % (f, f, i(), i(), f, i(), f),
            lambda: "(def(%s, [$1, $k]) -> [%s(%s, k => %s), %s(%s)])" % (f, f, i(), i(), f, i()),
            lambda: "(def(%s, [$, $2]) -> [%s(%s), %s(%s, %s), %s(%s)])" % (f, f, i(), f, i(), i(), f, i()),
            # recursion that reads its own argument AFTER the inner call returned
            lambda: "(def(%s, switch($1 <= 0 => 0, true => %s($1 - 1) + $1)) -> %s(%d))" % (f, f, f, rng.randrange(0, 6)),
            lambda: "(def(%s, switch($ <= 1 => 1, true => %s($ - 1) * $)) -> %s(%d))" % (f, f, f, rng.randrange(0, 6)),
            lambda: "(def(%s, switch($1 <= 0 => [], true => %s($1 - 1) + [$1, $2])) -> %s(%d, %s))" % (f, f, f, rng.randrange(0, 4), i()),
            # a def'd FUNCTION does not hide the METHOD of the same name (functions and methods are distinct)
            lambda: "(def(len, 0) -> [len(%s), %s.len()])" % (self.list_lit(env, 1), self.list_lit(env, 1)),
            lambda: "(def(first, $1 + 1) -> [first(%s), %s.first(%s), %s.select(first($)).toList()])" % (i(), self.list_lit(env, 1, minlen=1), i(), self.list_lit(env, 1)),
            lambda: "(def(toList, [$1]) -> def(%s, %s.where($ > 0).toList()) -> [toList(%s), %s(), %s.select($).toList()])" % (f, self.list_lit(env, 1), i(), f, self.list_lit(env, 1)),
            lambda: "(def(select, $1) -> def(where, $1) -> %s.where(select($) >= where(0)).select(select($) + 1).len())" % self.list_lit(env, 1),
            lambda: "(def(any, 7) -> [any(), %s.any($ > 1), %s.all($ > 1)])" % (self.list_lit(env, 1), self.list_lit(env, 1)),
            # a body is evaluated at EVERY call - also a call that passes nothing (no memo of a parameterless closure)
            lambda: "(def(%s, %s) -> [%s(), %s(), %s(%s), %s()])" % (f, self.tk(i()), f, f, f, i(), f),
            lambda: "(let(%s => %s) -> def(%s, %s + $%s) -> def(%s, %s() + %s()) -> [%s(), %s(), %s()])" % (x, i(), f, self.tk(i()), x, g, f, f, g, f, g),
            lambda: "%s.select(def(%s, %s) -> %s() + %s()).toList()" % (self.list_lit(env, 1), f, self.tk("$"), f, f),
            # a lazy sequence handed on by a binding form stays lazy: only what the continuation consumes is evaluated
            lambda: "(let(%s => %s.select(%s)) -> $%s.first(0))" % (x, self.list_lit(env, 1, minlen=2), self.tk("$ + 1"), x),
            lambda: "(let(%s => %s.select(%s).where(%s)) -> $%s.any($ > %s))" % (x, self.list_lit(env, 1, minlen=2), self.tk("$ * 2"), self.tk("$ > 0"), x, i()),
            lambda: "(with(%s.where(%s)) -> $1.first(0))" % (self.list_lit(env, 1, minlen=2), self.tk("$ >= 0")),
            lambda: "(def(%s, $1.first(0)) -> %s(%s.select(%s)))" % (f, f, self.list_lit(env, 1, minlen=2), self.tk("$ + 1")),
            lambda: "(let(%s => %s.select(%s)) -> let(%s => $%s.where(%s)) -> $%s.first(0))" % (x, self.list_lit(env, 1, minlen=2), self.tk("$"), y, x, self.tk("$ > 1"), y),
            lambda: "(let(%s => %s.select(%s)) -> $%s.select(%s).first(0))" % (x, self.list_lit(env, 1, minlen=2), self.tk("$ + 1"), x, self.tk("$ * 3")),
            # many positional arguments: $10, $11 ... are arguments of the innermost lambda like $1..$9
            lambda: "(def(%s, [$1, $9, $10, $11, $12]) -> %s(%s))" % (f, f, ", ".join(str(k * 3) for k in range(1, rng.randrange(10, 14)))),
            lambda: "(with(%s) -> def(%s, [$10, $2]) -> [%s(%s), $10, $11])" % (", ".join(str(k) for k in range(1, 12)), f, f, ", ".join(str(k * 2) for k in range(1, 11))),
            lambda: "(let(%s) -> [$1, $10, $12, $13])" % ", ".join(str(k + 5) for k in range(12)),
            # null bindings shadow outer non-null ones
            lambda: "(let(%s => %s) -> let(%s => null) -> [$%s, $%s = null])" % (x, i(), x, x, x),
            lambda: "[null, %s, null].select([$, $ = null])" % i(),
            lambda: "(with(%s) -> with(null) -> [$, $1])" % i(),
            lambda: "(def(%s, $1) -> let(%s => 5) -> [%s(null), %s($%s)])" % (f, x, f, f, x),
        ]
        return rng.choice(shapes)()

    def program(self, data_kind, depth):
        env = {}
        if data_kind in ("int", "list", "dict", "dictlist"):
            env["$"] = data_kind
            if data_kind == "int":
                env["1"] = "int"
        self.next_tick = 0
        kind = self.rng.choice(["int", "int", "list", "bool", "listofany", "scenario"])
        if kind == "scenario":
            return self.scenario(env, depth)
        if kind == "int":
            return self.int_(env, depth)
        if kind == "list":
            return self.list_(env, depth)
        if kind == "bool":
            return self.bool_(env, depth)
        return "[%s, %s, %s]" % (self.list_(env, depth - 1), self.t(self.int_(env, depth - 1)), self.dict_(env, depth - 1))


def gen_data(rng, kind):
    if kind == "int":
        return rng.randrange(-3, 9)
    if kind == "list":
        return [rng.randrange(-3, 9) for _ in range(rng.randrange(0, 5))]
    if kind == "dict":
        return {k: rng.randrange(0, 9) for k in KEYS if rng.random() < 0.7}
    if kind == "dictlist":
        return [{k: rng.randrange(0, 9) for k in KEYS if rng.random() < 0.8} for _ in range(rng.randrange(0, 4))]
    return None


# --------------------------------------------------------------------------
# real tree -> model AST
# --------------------------------------------------------------------------
class Unsupported(Exception):
    pass


BINOPS = {"+": "OAdd", "-": "OSub", "*": "OMul", "<": "OLt", "<=": "OLe", ">": "OGt", ">=": "OGe",
          "=": "OEq", "!=": "ONe", "and": "OAnd", "or": "OOr"}


def const_term(v):
    if v is None:
        return "(EConst CNull)"
    if isinstance(v, bool):
        return "(EConst (CBool %s))" % gal.boolean(v)
    if isinstance(v, int):
        return "(EConst (CInt %s))" % gal.z(v)
    if isinstance(v, str):
        return "(EConst (CStr %s))" % gal.s(v)
    raise Unsupported("constant %r" % (v,))


def tr(node):
    from yaql.language import expressions as E
    from yaql.language import utils
    if node is utils.NO_VALUE:
        raise Unsupported("empty slot")
    if isinstance(node, E.Statement):
        return tr(node.expression)
    if isinstance(node, E.Wrap):
        return tr(node.expr)
    if isinstance(node, E.KeywordConstant):
        return "(EKw %s)" % gal.s(node.value)
    if isinstance(node, E.Constant):
        return const_term(node.value)
    if isinstance(node, E.GetContextValue):
        p = node.path.value
        return "(EVar %s)" % gal.s(p[1:] if p.startswith("$") else p)
    if isinstance(node, E.ListExpression):
        return "(EList %s)" % gal.lst(tr(a) for a in node.args)
    if isinstance(node, E.MapExpression):
        kvs = []
        for a in node.args:
            if not isinstance(a, E.MappingRuleExpression):
                raise Unsupported("map arg")
            kvs.append("(%s, %s)" % (tr(a.source), tr(a.destination)))
        return "(EMap %s)" % gal.lst(kvs)
    if isinstance(node, E.IndexExpression):
        if len(node.args) != 2:
            raise Unsupported("indexer arity")
        return "(EIndex %s %s)" % (tr(node.args[0]), tr(node.args[1]))
    if isinstance(node, E.BinaryOperator):
        op, (a, b) = node.operator, node.args
        if op in (".", "?."):
            if isinstance(b, E.KeywordConstant) and op == ".":
                return "(EDotKw %s %s)" % (tr(a), gal.s(b.value))
            if type(b) is E.Function:
                return "(%s %s %s %s)" % ("EMeth" if op == "." else "EElvis", tr(a), gal.s(b.name), gal.lst(tr(x) for x in b.args))
            raise Unsupported("dot form")
        if op == "->":
            return "(EArrow %s %s)" % (tr(a), tr(b))
        if op in BINOPS:
            return "(EBin %s %s %s)" % (BINOPS[op], tr(a), tr(b))
        raise Unsupported("operator " + op)
    if isinstance(node, E.UnaryOperator):
        if node.operator == "-":
            return "(EUn UNeg %s)" % tr(node.args[0])
        if node.operator == "not":
            return "(EUn UNot %s)" % tr(node.args[0])
        raise Unsupported("unary " + node.operator)
    if type(node) is E.Function:
        name, args = node.name, node.args
        pos = [a for a in args if not isinstance(a, E.MappingRuleExpression)]
        maps = [a for a in args if isinstance(a, E.MappingRuleExpression)]

        def kw():
            out = []
            for m in maps:
                if not isinstance(m.source, E.KeywordConstant):
                    raise Unsupported("non-keyword mapping")
                out.append("(%s, %s)" % (gal.s(m.source.value), tr(m.destination)))
            return gal.lst(out)
        if name == "let":
            return "(ELet %s %s)" % (gal.lst(tr(a) for a in pos), kw())
        if name == "with" and not maps:
            return "(EWith %s)" % gal.lst(tr(a) for a in pos)
        if name == "def" and len(pos) == 2 and not maps and isinstance(pos[0], (E.KeywordConstant, E.Constant)) \
                and isinstance(pos[0].value, str):
            return "(EDef %s %s)" % (gal.s(pos[0].value), tr(pos[1]))
        if name == "tick" and len(pos) == 2 and not maps and isinstance(pos[0], E.Constant) and isinstance(pos[0].value, int):
            return "(ETick %s %s)" % (gal.z(pos[0].value), tr(pos[1]))
        if name == "switch" and not pos:
            return "(ESwitch %s)" % gal.lst("(%s, %s)" % (tr(m.source), tr(m.destination)) for m in maps)
        if name == "selectCase" and not maps:
            return "(ESelectCase %s)" % gal.lst(tr(a) for a in pos)
        if name == "coalesce" and not maps:
            return "(ECoalesce %s)" % gal.lst(tr(a) for a in pos)
        return "(EUser %s %s %s)" % (gal.s(name), gal.lst(tr(a) for a in pos), kw())
    raise Unsupported(type(node).__name__)


# --------------------------------------------------------------------------
# values
# --------------------------------------------------------------------------
def val_term(v):
    from yaql.language import utils
    if v is None:
        return "VNull"
    if isinstance(v, bool):
        return "(VBool %s)" % gal.boolean(v)
    if isinstance(v, int):
        return "(VInt %s)" % gal.z(v)
    if isinstance(v, str):
        return "(VStr %s)" % gal.s(v)
    if isinstance(v, (list, tuple)):
        return "(VList %s)" % gal.lst(val_term(x) for x in v)
    if isinstance(v, (dict, utils.FrozenDict)):
        return "(VDict %s)" % gal.lst("(%s, %s)" % (val_term(k), val_term(x)) for k, x in v.items())
    raise Unsupported("value %r" % type(v).__name__)


def err_kind(e):
    from yaql.language import exceptions as X
    if isinstance(e, (X.NoMatchingFunctionException, X.NoMatchingMethodException, X.NoFunctionRegisteredException,
                      X.NoMethodRegisteredException, X.AmbiguousFunctionException, X.AmbiguousMethodException)):
        return "KRes"
    if isinstance(e, KeyError):
        return "KKey"
    if isinstance(e, IndexError):
        return "KIndex"
    if isinstance(e, StopIteration):
        return "KStop"
    if isinstance(e, ZeroDivisionError):
        return "KZero"
    if isinstance(e, ValueError):
        return "KValue"
    if isinstance(e, TypeError):
        return "KType"
    return "Other:" + type(e).__name__


_engine = None


def engine():
    global _engine
    if _engine is None:
        import yaql
        _engine = yaql.YaqlFactory().create()
    return _engine


# engine configurations that must not change the meaning of any program of the fragment: generous limits, the output
# options spelled out, the two options together.  (A limit that is never reached, or a quota that is never exceeded, only
# adds checks; `yaql.convertTuplesToLists` / `convertSetsToLists` = their defaults for lists.)
NEUTRAL_OPTIONS = [
    {},
    {"yaql.limitIterators": 100000},
    {"yaql.memoryQuota": 10 ** 9},
    {"yaql.limitIterators": 50000, "yaql.memoryQuota": 10 ** 8},
    {"yaql.convertTuplesToLists": True, "yaql.convertOutputData": True},
    {"yaql.convertInputData": True, "yaql.limitIterators": -1, "yaql.memoryQuota": -1},
]
_variants = {}


def engine_variant(i):
    """engine number i of the neutral configurations (each created once per process)"""
    i %= len(NEUTRAL_OPTIONS)
    if i not in _variants:
        import yaql
        _variants[i] = engine() if i == 0 else yaql.YaqlFactory().create(dict(NEUTRAL_OPTIONS[i]))
    return _variants[i]


def make_context(log):
    """A fresh child of the standard context with the tick probe registered."""
    import yaql
    ctx = yaql.create_context()

    def tick(id, value):
        log.append(id)
        return value
    ctx.register_function(tick, name="tick")
    return ctx


def run_real(text, data, stmt=None, ctx=None, log=None):
    """Returns (log, ('ok', value) | ('err', kind))."""
    log = [] if log is None else log
    try:
        stmt = stmt or engine()(text)
        ctx = ctx or make_context(log)
        v = stmt.evaluate(data=data, context=ctx)
        return log, ("ok", v)
    except Exception as e:
        return log, ("err", err_kind(e))


def res_term(r):
    if r[0] == "ok":
        return "(Ok %s)" % val_term(r[1])
    if r[1].startswith("Other:"):
        raise Unsupported("error class " + r[1])
    return "(Err %s)" % r[1]


def case_term(text, data, log, r, stmt=None):
    stmt = stmt or engine()(text)
    return "{| ec_data := %s; ec_expr := %s; ec_log := %s; ec_res := %s |}" % (
        val_term(data), tr(stmt), gal.zlist(log), res_term(r))
