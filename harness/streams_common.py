"""Shared by C13 and C14: the generated lambda family, pipeline stages, their yaql
text and their Gallina terms (Model/Queries.v, Model/Streams.v), the typed random
pipeline generator, evaluation of the real code and canonical observations."""
import re
import signal

import gal
import yaql
import yaql.legacy
from yaql.language import exceptions as yexc

HEADER = "From YV Require Import Model.Queries Model.Streams."
NOSEED = ("noseed",)

_engine = None
_ctx = None
TICKS = {}


def engine():
    global _engine
    if _engine is None:
        _engine = yaql.YaqlFactory().create()
    return _engine


def _tick(pid, v):
    TICKS[pid] = TICKS.get(pid, 0) + 1
    return v


CONVS = ("camel", "python", "custom")
_ctxs, _maps = {}, {}
# declared keyword parameters the generated texts use (zipLongest's `default` is a free **kwargs key: not converted)
KW_PARAMS = ("aggregator", "listMerger", "itemMerger", "maxLevels", "decycle", "depthFirst")


def _convention(conv):
    from yaql.language import conventions

    class Shouting(conventions.Convention):
        """a custom naming convention: the registered (snake_case) names in upper case"""

        def convert_function_name(self, name):
            return name if name.startswith("#") else name.upper()      # operators and hidden helpers keep their names

        def convert_parameter_name(self, name):
            return name.upper()
    return {"camel": conventions.CamelCaseConvention, "python": conventions.PythonConvention, "custom": Shouting}[base_conv(conv)]()


NOFB = "!nofb"       # suffix of a convention name: the context is created with group_by_agg_fallback=False
LEGACY = "!legacy"   # suffix of a convention name: yaql.legacy.create_context (and the legacy engine)
DLG = "!dlg"         # suffix of a convention name: the context is created with delegates=True (lambda(..), $fn(..))


def base_conv(conv):
    return conv.split("!")[0]


def context(conv="camel"):
    """the standard context under one of three naming conventions (the same functions, other spellings);
    `<conv>!nofb`: the same with groupBy's old-style aggregator fallback switched off"""
    if conv not in _ctxs:
        mk = yaql.create_context
        if LEGACY in conv:
            mk = yaql.legacy.create_context
        c = mk(convention=_convention(conv), group_by_agg_fallback=NOFB not in conv, delegates=DLG in conv)
        c.register_function(_tick, name="tick")
        m = re.search(r"!dot(-?\d+)", conv)
        if m:       # a child context in which the HOST overrides `.` for mappings: d.get(key, default)
            from yaql.language import specs, utils as yutils, yaqltypes
            default = int(m.group(1))

            @specs.parameter('d', yutils.MappingType, alias='dict')
            @specs.parameter('key', yaqltypes.Keyword())
            @specs.name('#operator_.')
            def host_access(d, key):
                return d.get(key, default)
            c = c.create_child_context()
            c.register_function(host_access)
        _ctxs[conv] = c
    return _ctxs[conv]


def _registry(ctx):
    """name -> set of payload identities, over all layers of a context"""
    out, c = {}, ctx
    while c is not None:
        for name, fns in getattr(c, "_functions", {}).items():
            for f in fns:
                out.setdefault(name, set()).add((getattr(f.payload, "__module__", ""), getattr(f.payload, "__qualname__", "")))
        c = c.parent
    return out


def name_maps(conv):
    """default (camelCase) spelling -> spelling under `conv`, for every registered function and keyword parameter.
    Functions are matched between the two registries by their payloads (names given explicitly at registration are
    not converted, decorator and Python names are), parameters by their raw names."""
    conv = base_conv(conv)
    if conv not in _maps:
        from yaql.language import conventions, specs
        camel, other = conventions.CamelCaseConvention(), _convention(conv)
        d0, d1 = _registry(yaql.create_context(delegates=True)), _registry(yaql.create_context(convention=other, delegates=True))
        fm = {}
        for n, keys in d0.items():
            cands = sorted(m for m, k in d1.items() if k == keys)
            if n in cands:
                fm[n] = n
            elif len(cands) == 1:
                fm[n] = cands[0]
            elif cands:
                free = [m for m in cands if m not in d0]
                fm[n] = (free or cands)[0]
        # the harness' own probes (tick, feed) are registered with explicit names, which no convention converts
        pm = {}
        c = yaql.create_context(convention=conventions.PythonConvention())
        while c is not None:
            for fns in getattr(c, "_functions", {}).values():
                for f in fns:
                    for prm in f.parameters.values():
                        if isinstance(prm.name, str):
                            pm[specs.convert_parameter_name(prm.name, camel)] = specs.convert_parameter_name(prm.name, other)
            c = c.parent
        _maps[conv] = (fm, pm)
    return _maps[conv]


_CALL_RE = re.compile(r"(?<![A-Za-z0-9_$'])([A-Za-z_][A-Za-z0-9_]*)(\s*\()")
_KW_RE = re.compile(r"\b(%s)(\s*=>)" % "|".join(KW_PARAMS))


def conv_text(text, conv):
    """the same expression spelled for a context created with another naming convention"""
    if base_conv(conv) == "camel":
        return text
    fm, pm = name_maps(conv)
    text = _CALL_RE.sub(lambda m: fm.get(m.group(1), m.group(1)) + m.group(2), text)
    return _KW_RE.sub(lambda m: pm.get(m.group(1), m.group(1)) + m.group(2), text)


# ------------------------------------------------------------------------------
# values
# ------------------------------------------------------------------------------
def gval(v):
    if v is None:
        return "VNull"
    if isinstance(v, bool):
        return "(VBool %s)" % gal.boolean(v)
    if isinstance(v, int):
        return "(VInt %s)" % gal.z(v)
    if isinstance(v, tuple):
        return "(VList false %s)" % gal.lst(gval(x) for x in v)
    if isinstance(v, list):
        return "(VList true %s)" % gal.lst(gval(x) for x in v)
    if isinstance(v, str):
        return "(VStr %s)" % gal.s(v)
    if isinstance(v, dict):
        return "(VDict false %s)" % gal.lst(gal.pair(gval(k), gval(x)) for k, x in v.items())
    raise ValueError("value outside the modelled universe: %r" % (v,))


class FD(dict):
    """a FrozenDict seen in a raw (unconverted) result, as opposed to a plain Python dict"""


def gval_kind(v):
    """like gval, but keeping the container kinds: list / tuple, dict / FrozenDict (FD)"""
    if isinstance(v, tuple):
        return "(VList false %s)" % gal.lst(gval_kind(x) for x in v)
    if isinstance(v, list):
        return "(VList true %s)" % gal.lst(gval_kind(x) for x in v)
    if isinstance(v, dict):
        return "(VDict %s %s)" % ("false" if isinstance(v, FD) else "true", gal.lst(gal.pair(gval_kind(k), gval_kind(x)) for k, x in v.items()))
    return gval(v)


def gvals(vs):
    return gal.lst(gval(x) for x in vs)


def gkvs(d):
    return gal.lst(gal.pair(gval(k), gval(v)) for k, v in d)


def gopt(x, f):
    return "None" if x is None or x is NOSEED else "(Some %s)" % f(x)


def vtext(v):
    if v is None:
        return "null"
    if isinstance(v, bool):
        return "true" if v else "false"
    if isinstance(v, int):
        return str(v)
    if isinstance(v, (tuple, list)):
        return "[" + ", ".join(vtext(x) for x in v) + "]"
    if isinstance(v, str):
        assert v.isalpha() or v == "", v
        return "'%s'" % v
    if isinstance(v, dict):
        items = list(v.items())
        if len(items) == 2 and all(isinstance(k, str) for k, _ in items):
            how = (len(repr(v)) + len(str(items[0][1]))) % 4
            (k1, x1), (k2, x2) = items
            if how == 1:
                return "{%s => %s}.set(%s, %s)" % (vtext(k1), vtext(x1), vtext(k2), vtext(x2))
            if how == 2:
                return "({%s => %s} + {%s => %s})" % (vtext(k1), vtext(x1), vtext(k2), vtext(x2))
            if how == 3:
                return "dict(%s => %s).set(%s => %s)" % (k1, vtext(x1), k2, vtext(x2))
        return "{" + ", ".join("%s => %s" % (vtext(k), vtext(x)) for k, x in items) + "}" if v else "dict()"
    raise ValueError(v)


def dict_text(d):
    return "{" + ", ".join("%s => %s" % (vtext(k), vtext(v)) for k, v in d) + "}" if d else "dict()"


def set_text(vs):
    return "set(" + ", ".join(vtext(x) for x in vs) + ")"


def tojson(v):
    """values as JSON (tuples -> lists; nothing else in the universe needs care)"""
    if isinstance(v, (tuple, list)):
        return [tojson(x) for x in v]
    if isinstance(v, dict):
        return {"__d__": [[tojson(k), tojson(x)] for k, x in v.items()]}
    return v


def fromjson(v):
    if isinstance(v, list):
        return tuple(fromjson(x) for x in v)
    if isinstance(v, dict) and "__d__" in v:
        return {fromjson(k): fromjson(x) for k, x in v["__d__"]}
    return v


# ------------------------------------------------------------------------------
# lambdas: ('gt', c) ... ; text is the yaql body; probe wraps the body in tick(id, .)
# ------------------------------------------------------------------------------
def lam_body(l, x="$"):
    k = l[0]
    if k == "id":
        return x
    if k == "gt":
        return "%s > %d" % (x, l[1])
    if k == "lt":
        return "%s < %d" % (x, l[1])
    if k == "eq":
        return "%s = %d" % (x, l[1])
    if k == "neq":
        return "%s != %d" % (x, l[1])
    if k == "isnull":
        return "%s = null" % x
    if k == "modeq":
        return "%s mod %d = %d" % (x, l[1], l[2])
    if k == "mod":
        return "%s mod %d" % (x, l[1])
    if k == "add":
        return "%s + %d" % (x, l[1])
    if k == "mul":
        return "%s * %d" % (x, l[1])
    if k == "pair":
        return "[%s, %s]" % (x, x)
    if k == "pairmod":
        return "[%s mod %d, %s]" % (x, l[1], x)
    if k == "idx":
        return "%s[%d]" % (x, l[1])
    if k == "const":
        return "%d" % l[1]
    if k == "field":
        return "%s.%s" % (x, l[1])
    if k == "fieldgt":
        return "%s.%s > %d" % (x, l[1], l[2])
    if k == "strlt":
        return "%s < '%s'" % (x, l[1])
    if k == "strcat":
        return "%s + '%s'" % (x, l[1])
    if k == "strlen":
        return "%s.len()" % x
    raise ValueError(l)


def lam_gal(l):
    k = l[0]
    name = {"id": "LId", "gt": "LGt", "lt": "LLt", "eq": "LEqZ", "neq": "LNeqZ", "isnull": "LIsNull",
            "modeq": "LModEq", "mod": "LMod", "add": "LAdd", "mul": "LMul", "pair": "LPair",
            "pairmod": "LPairMod", "idx": "LIdx", "const": "LConst", "field": "LField", "fieldgt": "LFieldGt",
            "strlt": "LStrLt", "strcat": "LStrCat", "strlen": "LStrLen"}[k]
    if k == "idx":
        return gal.app(name, gal.nat(l[1]))
    if k in ("field", "strlt", "strcat"):
        return gal.app(name, gal.s(l[1]))
    if k == "fieldgt":
        return gal.app(name, gal.s(l[1]), gal.z(l[2]))
    return gal.app(name, *[gal.z(a) for a in l[1:]])


L2_TEXT = {"add2": "$1 + $2", "mul2": "$1 * $2", "fst": "$1", "snd": "$2", "max2": "max($1, $2)",
           "min2": "min($1, $2)", "pair2": "[$1, $2]", "gt2": "$1 > $2", "eq2": "$1 = $2"}
L2_GAL = {"add2": "L2Add", "mul2": "L2Mul", "fst": "L2Fst", "snd": "L2Snd", "max2": "L2Max",
          "min2": "L2Min", "pair2": "L2Pair", "gt2": "L2Gt", "eq2": "L2Eq"}


class Probe:
    """numbers the lambdas of one expression; with on=False the text is left plain"""

    def __init__(self, on):
        self.on, self.n = on, 0

    def wrap(self, body):
        if not self.on:
            return body
        self.n += 1
        return "tick(%d, %s)" % (self.n, body)


def lt(l, pr):
    return pr.wrap(lam_body(l))


def l2t(l, pr):
    return pr.wrap(L2_TEXT[l[0]])


# ------------------------------------------------------------------------------
# stages
# ------------------------------------------------------------------------------
def _cnt_text(c):
    return "" if c is None else ", %d" % c


GAGG_TEXT = {"idxpair": "[$[0], $[1]]", "idxlen": "[$[0], $[1].len()]", "idxsum": "[$[0], $[1].sum()]", "third": "$[2]",
             "len": "$.len()", "sum": "$.sum()", "first": "$.first()", "id": "$"}
GAGG_GAL = {"idxpair": "GIdxPair", "idxlen": "GIdxLen", "idxsum": "GIdxSum", "third": "GThird", "len": "GLenA", "sum": "GSumA",
            "first": "GFirstA", "id": "GIdA"}


def stage_apply_text(expr, sg, pr, alias=0):
    """yaql text of `sg` applied to the expression text `expr`"""
    k = sg[0]
    m = lambda name, *args: "%s.%s(%s)" % (expr, name, ", ".join(args))
    if k == "where":
        return m("filter" if alias else "where", lt(sg[1], pr))
    if k == "select":
        return m("map" if alias else "select", lt(sg[1], pr))
    if k == "selectMany":
        return m("selectMany", lt(sg[1], pr))
    if k == "skip":
        return m("skip", str(sg[1]))
    if k == "take":
        return m("limit" if alias else "take", str(sg[1]))
    if k == "takeWhile":
        return m("takeWhile", lt(sg[1], pr))
    if k == "skipWhile":
        return m("skipWhile", lt(sg[1], pr))
    if k == "append":
        return m("append", *[vtext(v) for v in sg[1]])
    if k == "concat":
        return m("concat", *[vtext(l) for l in sg[1]])
    if k == "distinct":
        return m("distinct") if sg[1] is None else m("distinct", lt(sg[1], pr))
    if k == "enumerate":
        return m("enumerate") if sg[1] is None else m("enumerate", str(sg[1]))
    if k == "zip":
        return m("zip", *[vtext(l) for l in sg[1]])
    if k == "accumulate":
        return m("accumulate", l2t(sg[1], pr)) if sg[2] is NOSEED else m("accumulate", l2t(sg[1], pr), vtext(sg[2]))
    if k == "insert":
        return m("insert", str(sg[1]), vtext(sg[2]))
    if k == "insertMany":
        return m("insertMany", str(sg[1]), vtext(sg[2]))
    if k == "delete":
        return m("delete", str(sg[1])) if sg[2] is None else m("delete", str(sg[1]), str(sg[2]))
    if k == "replace":
        return m("replace", str(sg[1]), vtext(sg[2])) if sg[3] is None else m("replace", str(sg[1]), vtext(sg[2]), str(sg[3]))
    if k == "replaceMany":
        return m("replaceMany", str(sg[1]), vtext(sg[2])) if sg[3] is None else m("replaceMany", str(sg[1]), vtext(sg[2]), str(sg[3]))
    if k == "slice":
        return m("slice", str(sg[1]))
    if k in ("min", "max") and len(sg) > 1 and sg[1] is not NOSEED:
        return m(k, vtext(sg[1]))
    if k in ("memorize", "reverse", "toList", "toSet", "cycle", "single", "len", "count", "min", "max"):
        return m(k)
    if k == "selectManyG":         # the selector returns a LAZY group
        g = sg[1]
        body = {"seq": lambda: "sequence($)", "range": lambda: "range($)",
                "repeat": lambda: "$.repeat()" if g[1] is None else "$.repeat(%d)" % g[1],
                "host": lambda: "$grp", "hostmap": lambda: "$grp.select(%s)" % lt(g[2], pr),
                "hostfilter": lambda: "$grp.where(%s)" % lt(g[2], pr)}[g[0]]()
        return m("selectMany", pr.wrap(body))
    if k == "attrx":               # collection.name under the context's member access
        return "%s.%s" % (expr, sg[1])
    if k == "groupByG":            # the aggregator protocol: [key, value] pairs grouped on $[0], values $[1]
        return m("groupBy", "$[0]", "$[1]", GAGG_TEXT[sg[1]])
    if k == "groupByLegacy":       # the pre-1.1.1 aggregator: a function of [key, values] returning [key, aggregate]
        agg = pr.wrap(["[$[0], $[1].len()]", "[$[0], $[1].sum()]", "[$[0], $[1].first()]"][sg[3]])
        return m("groupBy", lt(sg[1], pr), lt(sg[2] if sg[2] is not None else ("id",), pr), agg)
    if k == "orderBy":
        return m("orderBy" if sg[2] else "orderByDescending", lt(sg[1], pr))
    if k == "thenBy":
        return m("thenBy" if sg[2] else "thenByDescending", lt(sg[1], pr))
    if k == "groupBy":
        return m("groupBy", lt(sg[1], pr)) if sg[2] is None else m("groupBy", lt(sg[1], pr), lt(sg[2], pr))
    if k == "join":
        return m("join", vtext(sg[1]), l2t(sg[2], pr), l2t(sg[3], pr))
    if k == "joinRange":      # the second collection is a one-shot iterator: join must memorize it
        return m("join", "range(%d, %d)" % (sg[1], sg[2]), l2t(sg[3], pr), l2t(sg[4], pr))
    if k == "splitAt":
        return m("splitAt", str(sg[1]))
    if k == "splitWhere":
        return m("splitWhere", lt(sg[1], pr))
    if k == "sliceWhere":
        return m("sliceWhere", lt(sg[1], pr))
    if k == "plus":
        return "(%s + %s)" % (expr, vtext(sg[1]))
    if k == "aggregate":
        name = "reduce" if alias else "aggregate"
        return m(name, l2t(sg[1], pr)) if sg[2] is NOSEED else m(name, l2t(sg[1], pr), vtext(sg[2]))
    if k == "sum":
        return m("sum") if sg[1] is NOSEED else m("sum", vtext(sg[1]))
    if k in ("first", "last"):
        return m(k) if sg[1] is NOSEED else m(k, vtext(sg[1]))
    if k in ("any", "all"):
        return m(k) if sg[1] is None else m(k, lt(sg[1], pr))
    if k in ("indexOf", "lastIndexOf", "contains", "containsKey", "containsValue"):
        return m(k, vtext(sg[1]))
    if k in ("indexWhere", "lastIndexWhere"):
        return m(k, lt(sg[1], pr))
    if k == "toDict":
        return m("toDict", lt(sg[1], pr)) if sg[2] is None else m("toDict", lt(sg[1], pr), lt(sg[2], pr))
    if k == "dictFromItems":
        return "dict(%s)" % expr
    if k == "dictSet":
        return m("set", vtext(sg[1]), vtext(sg[2]))
    if k == "dictDelete":
        return m("delete", *[vtext(v) for v in sg[1]])
    if k == "dictDeleteAll":
        return m("deleteAll", vtext(sg[1]))
    if k == "dictPlus":
        return "(%s + %s)" % (expr, dict_text(sg[1]))
    if k == "mergeWith":
        return m("mergeWith", dict_text(sg[1]))
    if k == "keysList":
        return expr + ".keys().toList()"
    if k == "valuesList":
        return expr + ".values().toList()"
    if k == "itemsList":
        return expr + ".items().toList()"
    if k == "dictGet":
        return m("get", vtext(sg[1])) if sg[2] is NOSEED else m("get", vtext(sg[1]), vtext(sg[2]))
    if k in ("union", "intersect", "symmetricDifference"):
        return m(k, set_text(sg[1]))
    if k == "difference":
        return "(%s - %s)" % (expr, set_text(sg[1])) if alias else m("difference", set_text(sg[1]))
    if k == "setAdd":
        return m("add", *[vtext(v) for v in sg[1]])
    if k == "setRemove":
        return m("remove", *[vtext(v) for v in sg[1]])
    if k == "keysView":
        return expr + ".keys()"
    if k == "self":
        op, memo = sg[1], sg[2]
        AGGS = ["$m.sum(0)", "$m.count()", "$m.max()", "$m.min()", "$m.first()", "$m.last()"]
        body = {"zip": lambda: "$m.zip($m)",
                "zipskip": lambda: "$m.zip($m.skip(%d))" % op[1],
                "join": lambda: "$m.join($m, %s, %s)" % (L2_TEXT[op[1][0]], L2_TEXT[op[2][0]]),
                "selagg": lambda: "$m.select($ * %d + %s)" % (op[1], AGGS[op[2]]),
                "wheremax": lambda: "$m.where($ < $m.max())",
                "selmany": lambda: "$m.selectMany($m.select($ + 0).limit(%d))" % op[1],
                "firstall": lambda: "[$m.first(), $m.toList()]",
                "countsum": lambda: "[$m.count(), $m.sum(0)]"}[op[0]]()
        return "(let(m => %s%s) -> %s)" % (expr, ".memorize()" if memo else "", body)
    if k == "groupByAggP":
        body = pipeline_text("$", list(sg[3])) + [".count()", ".sum(0)", ".first(null)", ".toList()"][sg[4]]
        agg = pr.wrap(body)
        return m("groupBy", lt(sg[1], pr), lt(sg[2] if sg[2] is not None else ("id",), pr), agg)
    if k == "groupByAgg":
        agg = pr.wrap(["$.len()", "$.sum()", "$.first()"][sg[3]])
        return m("groupBy", lt(sg[1], pr), "aggregator => " + agg) if sg[2] is None else m("groupBy", lt(sg[1], pr), lt(sg[2], pr), agg)
    if k == "attr":
        return expr + ".a"
    if k == "unpackNamed":
        names = ["v%d" % (j + 1) for j in range(sg[1])]
        return "(%s.unpack(%s) -> [%s])" % (expr, ", ".join(names), ", ".join("$" + x for x in names))
    if k == "unpackIdx":
        return "(%s.unpack() -> [%s])" % (expr, ", ".join("$%d" % j for j in sg[1]))
    if k == "with":
        return "(with(%s) -> $1)" % expr
    if k == "zipLongest":
        args = [vtext(l) for l in sg[1]] + ([] if sg[2] is NOSEED else ["default => " + vtext(sg[2])])
        return m("zipLongest", *args)
    if k == "listOf":
        return "list(%s)" % ", ".join([expr] + [vtext(v) for v in sg[1]])
    if k == "mergeWithX":
        args = [dict_text(sg[1])]
        if sg[2] is not None:
            args.append("listMerger => " + l2t(sg[2], pr))
        if sg[3] is not None:
            args.append("itemMerger => " + l2t(sg[3], pr))
        if sg[4] is not None:
            args.append("maxLevels => %d" % sg[4])
        return m("mergeWith", *args)
    if k == "dictSetMany":
        return m("set", dict_text(sg[1]))
    if k == "dictSetInline":
        return m("set", *["%s => %s" % (vtext(a), vtext(b)) for a, b in sg[1]])
    if k == "assertAny":
        return m("assert", "$.any()")
    if k == "flatten":
        return m("flatten")
    if k == "defaultIfEmpty":
        return m("defaultIfEmpty", vtext(sg[1]))
    if k == "times":
        return "(%s * %d)" % (expr, sg[1]) if not alias else "(%d * %s)" % (sg[1], expr)
    if k in ("isList", "isDict", "isSet", "isIterable"):
        return "%s(%s)" % (k, expr)
    if k == "in":
        return "(%s in %s)" % (vtext(sg[1]), expr)
    if k == "setCmp":
        return "(%s %s %s)" % (expr, ["<", "<=", ">", ">="][sg[1]], set_text(sg[2]))
    if k == "index":
        return "%s[%s]" % (expr, vtext(sg[1]))
    if k == "indexDefault":
        return "%s[%s, %s]" % (expr, vtext(sg[1]), vtext(sg[2]))
    raise ValueError(sg)


def stage_gal(sg):
    k = sg[0]
    A = gal.app
    oz = lambda c: gal.opt(c, gal.z)
    ol = lambda l: gopt(l, lam_gal)
    ov = lambda v: "None" if v is NOSEED else "(Some %s)" % gval(v)
    l2 = lambda l: L2_GAL[l[0]]
    if k in ("where", "select", "selectMany", "takeWhile", "skipWhile", "splitWhere", "sliceWhere",
             "indexWhere", "lastIndexWhere"):
        return A("S" + k[0].upper() + k[1:], lam_gal(sg[1]))
    if k in ("skip", "take", "slice", "splitAt"):
        return A("S" + k[0].upper() + k[1:], gal.z(sg[1]))
    if k == "append":
        return A("SAppend", gvals(sg[1]))
    if k == "concat":
        return A("SConcat", gal.lst(gvals(l) for l in sg[1]))
    if k == "distinct":
        return A("SDistinct", ol(sg[1]))
    if k == "enumerate":
        return A("SEnumerate", oz(sg[1]))
    if k == "zip":
        return A("SZip", gal.lst(gvals(l) for l in sg[1]))
    if k == "accumulate":
        return A("SAccumulate", l2(sg[1]), ov(sg[2]))
    if k == "insert":
        return A("SInsert", gal.z(sg[1]), gval(sg[2]))
    if k == "insertMany":
        return A("SInsertMany", gal.z(sg[1]), gvals(sg[2]))
    if k == "delete":
        return A("SDelete", gal.z(sg[1]), oz(sg[2]))
    if k == "replace":
        return A("SReplace", gal.z(sg[1]), gval(sg[2]), oz(sg[3]))
    if k == "replaceMany":
        return A("SReplaceMany", gal.z(sg[1]), gvals(sg[2]), oz(sg[3]))
    if k in ("min", "max") and len(sg) > 1 and sg[1] is not NOSEED:
        return A("SAggregate", "L2Min" if k == "min" else "L2Max", ov(sg[1]))
    if k in ("memorize", "reverse", "toList", "toSet", "cycle", "single", "len", "count", "min", "max",
             "dictFromItems", "keysList", "valuesList", "itemsList"):
        return "S" + k[0].upper() + k[1:]
    if k == "selectManyG":
        g = sg[1]
        t = {"seq": lambda: "GSeq", "range": lambda: "GRange", "repeat": lambda: A("GRepeat", gal.opt(g[1], gal.nat)),
             "host": lambda: A("GHost", gal.z(g[1])), "hostmap": lambda: A("GHostMap", gal.z(g[1]), lam_gal(g[2])),
             "hostfilter": lambda: A("GHostFilter", gal.z(g[1]), lam_gal(g[2]))}[g[0]]()
        return A("SSelectManyG", t)
    if k == "attrx":
        acc = {"std": "AccStd", "legacy": "AccLegacy"}.get(sg[2][0]) or A("AccHost", gal.z(sg[2][1]))
        return A("SProjectBy", gal.s(sg[1]), acc)
    if k == "groupByG":
        return A("SGroupByG", "(LIdx 0)", "(Some (LIdx 1))", GAGG_GAL[sg[1]], gal.boolean(sg[2]))
    if k == "groupByLegacy":
        return A("SGroupByAgg", lam_gal(sg[1]), ol(sg[2] if sg[2] is not None else ("id",)), gal.nat(sg[3]))
    if k == "orderBy":
        return A("SOrderBy", lam_gal(sg[1]), gal.boolean(sg[2]))
    if k == "thenBy":
        return A("SThenBy", lam_gal(sg[1]), gal.boolean(sg[2]))
    if k == "groupBy":
        return A("SGroupBy", lam_gal(sg[1]), ol(sg[2]))
    if k == "join":
        return A("SJoin", gvals(sg[1]), l2(sg[2]), l2(sg[3]))
    if k == "joinRange":
        return A("SJoin", gvals(tuple(range(sg[1], sg[2]))), l2(sg[3]), l2(sg[4]))
    if k == "plus":
        return A("SPlus", gvals(sg[1]))
    if k == "aggregate":
        return A("SAggregate", l2(sg[1]), ov(sg[2]))
    if k == "sum":
        return A("SSum", ov(sg[1]))
    if k == "first":
        return A("SFirst", ov(sg[1]))
    if k == "last":
        return A("SLast", ov(sg[1]))
    if k == "any":
        return A("SAny", ol(sg[1]))
    if k == "all":
        return A("SAll", ol(sg[1]))
    if k in ("indexOf", "lastIndexOf", "contains", "containsKey", "containsValue"):
        return A("S" + k[0].upper() + k[1:], gval(sg[1]))
    if k == "toDict":
        return A("SToDict", lam_gal(sg[1]), ol(sg[2]))
    if k == "dictSet":
        return A("SDictSet", gval(sg[1]), gval(sg[2]))
    if k == "dictDelete":
        return A("SDictDelete", gvals(sg[1]))
    if k == "dictDeleteAll":
        return A("SDictDeleteAll", gvals(sg[1]))
    if k == "dictPlus":
        return A("SDictPlus", gkvs(sg[1]))
    if k == "mergeWith":
        return A("SMergeWith", gkvs(sg[1]))
    if k == "dictGet":
        return A("SDictGet", gval(sg[1]), ov(sg[2]))
    if k == "union":
        return A("SUnion", gvals(sg[1]))
    if k == "intersect":
        return A("SIntersect", gvals(sg[1]))
    if k == "difference":
        return A("SDifference", gvals(sg[1]))
    if k == "symmetricDifference":
        return A("SSymDiff", gvals(sg[1]))
    if k == "setAdd":
        return A("SSetAdd", gvals(sg[1]))
    if k == "setRemove":
        return A("SSetRemove", gvals(sg[1]))
    if k == "keysView":
        return "SKeysList"
    if k == "self":
        op = sg[1]
        t = {"zip": lambda: "SelfZip", "zipskip": lambda: A("SelfZipSkip", gal.nat(op[1])),
             "join": lambda: A("SelfJoin", l2(op[1]), l2(op[2])),
             "selagg": lambda: A("SelfSelectAgg", gal.z(op[1]), gal.nat(op[2])),
             "wheremax": lambda: "SelfWhereLtMax", "selmany": lambda: A("SelfSelectMany", gal.nat(op[1])),
             "firstall": lambda: "SelfFirstAll", "countsum": lambda: "SelfCountSum"}[op[0]]()
        return A("SSelf", t)
    if k == "groupByAggP":
        return A("SGroupByAggP", lam_gal(sg[1]), ol(sg[2] if sg[2] is not None else ("id",)), gal.lst(stage_gal(x) for x in sg[3]), gal.nat(sg[4]))
    if k == "groupByAgg":
        return A("SGroupByAgg", lam_gal(sg[1]), ol(sg[2]), gal.nat(sg[3]))
    if k == "attr":
        return "SProject"
    if k == "unpackNamed":
        return A("SUnpackNamed", gal.nat(sg[1]))
    if k == "unpackIdx":
        return A("SUnpackIdx", gal.natlist(sg[1]))
    if k == "with":
        return "SWith"
    if k == "zipLongest":
        return A("SZipLongest", gal.lst(gvals(l) for l in sg[1]), ov(sg[2]))
    if k == "listOf":
        return A("SListOf", gvals(sg[1]))
    if k == "mergeWithX":
        o2 = lambda l: "None" if l is None else "(Some %s)" % L2_GAL[l[0]]
        return A("SMergeWithX", gkvs(sg[1]), o2(sg[2]), o2(sg[3]), gal.z(0 if sg[4] is None else sg[4]))
    if k in ("dictSetMany", "dictSetInline"):
        return A("SDictPlus", gkvs(sg[1]))
    if k in ("flatten", "isList", "isDict", "isSet", "isIterable", "assertAny"):
        return "S" + k[0].upper() + k[1:]
    if k == "defaultIfEmpty":
        return A("SDefaultIfEmpty", gvals(sg[1]))
    if k == "times":
        return A("STimes", gal.z(sg[1]))
    if k == "in":
        return A("SContains", gval(sg[1]))
    if k == "setCmp":
        return A("SSetCmp", gal.nat(sg[1]), gvals(sg[2]))
    if k == "index":
        return A("SIndex", gval(sg[1]))
    if k == "indexDefault":
        return A("SIndexDefault", gval(sg[1]), gval(sg[2]))
    raise ValueError(sg)


# yaql registered name(s) each stage kind exercises
STAGE_NAMES = {
    "where": ["where", "filter"], "select": ["select", "map"], "selectMany": ["selectMany"], "skip": ["skip"],
    "take": ["take", "limit"], "takeWhile": ["takeWhile"], "skipWhile": ["skipWhile"], "append": ["append"],
    "concat": ["concat"], "distinct": ["distinct"], "enumerate": ["enumerate"], "zip": ["zip"],
    "accumulate": ["accumulate"], "insert": ["insert"], "insertMany": ["insertMany"], "delete": ["delete"],
    "replace": ["replace"], "replaceMany": ["replaceMany"], "slice": ["slice"], "memorize": ["memorize"],
    "reverse": ["reverse"], "orderBy": ["orderBy", "orderByDescending"], "thenBy": ["thenBy", "thenByDescending"],
    "groupBy": ["groupBy"], "join": ["join"], "joinRange": ["join", "range"], "splitAt": ["splitAt"], "splitWhere": ["splitWhere"],
    "sliceWhere": ["sliceWhere"], "toList": ["toList"], "toSet": ["toSet"], "cycle": ["cycle"],
    "plus": ["#operator_+"], "aggregate": ["aggregate", "reduce"], "sum": ["sum"], "min": ["min"], "max": ["max"],
    "first": ["first"], "last": ["last"], "single": ["single"], "any": ["any"], "all": ["all"],
    "indexOf": ["indexOf"], "lastIndexOf": ["lastIndexOf"], "indexWhere": ["indexWhere"],
    "lastIndexWhere": ["lastIndexWhere"], "len": ["len"], "count": ["count"], "contains": ["contains"],
    "toDict": ["toDict"], "dictFromItems": ["dict"], "dictSet": ["set"], "dictDelete": ["delete"],
    "dictDeleteAll": ["deleteAll"], "dictPlus": ["#operator_+"], "mergeWith": ["mergeWith"],
    "keysList": ["keys", "toList"], "valuesList": ["values", "toList"], "itemsList": ["items", "toList"],
    "dictGet": ["get"], "containsKey": ["containsKey"], "containsValue": ["containsValue"],
    "union": ["union"], "intersect": ["intersect"], "difference": ["difference", "#operator_-"],
    "symmetricDifference": ["symmetricDifference"], "setAdd": ["add"], "setRemove": ["remove"],
    "self": ["memorize"], "keysView": ["keys"], "groupByAgg": ["groupBy"], "groupByLegacy": ["groupBy"], "groupByG": ["groupBy"], "selectManyG": ["selectMany"], "attrx": ["#operator_."], "attr": ["#operator_."], "unpackNamed": [], "unpackIdx": [], "with": [],
    "zipLongest": ["zipLongest"], "listOf": ["list"], "mergeWithX": ["mergeWith"], "dictSetMany": ["set"], "dictSetInline": ["set"],
    "assertAny": [], "flatten": ["flatten"], "defaultIfEmpty": ["defaultIfEmpty"], "times": ["#operator_*"], "isList": ["isList"],
    "isDict": ["isDict"], "isSet": ["isSet"], "isIterable": ["isIterable"], "in": ["#operator_in"],
    "setCmp": ["#operator_<", "#operator_<=", "#operator_>", "#operator_>="], "index": ["#indexer"], "indexDefault": ["#indexer"],
}
SOURCE_NAMES = ["#list", "#map", "set", "range", "repeat", "sequence", "generate", "generateMany"]


# names of the two modules known not to be modelled (anything else that is registered and not modelled is NEW)
KNOWN_UNMODELLED = set()


def registered_names():
    """names registered by the two modules in the standard context (introspection)"""
    names, c = {}, yaql.create_context()
    while c is not None:
        conv = getattr(c, "convention", None)
        for name, fns in getattr(c, "_functions", {}).items():
            for f in fns:
                mod = getattr(f.payload, "__module__", "")
                if mod in ("yaql.standard_library.queries", "yaql.standard_library.collections"):
                    n = name
                    if conv is not None and not name.startswith("#"):
                        try:
                            n = conv.convert_function_name(name)
                        except Exception:
                            pass
                    names.setdefault(n, set()).add(f.payload.__name__)
        c = c.parent
    return names


def modelled_names():
    out = set(SOURCE_NAMES)
    for v in STAGE_NAMES.values():
        out.update(v)
    return out


def coverage_report(run):
    reg = registered_names()
    mod = modelled_names()
    unc = sorted(n for n in reg if n not in mod)
    run.cov["uncovered"] = ["%s (%s)" % (n, ",".join(sorted(reg[n]))) for n in unc]
    run.note("registered names of queries.py/collections.py: %d; modelled: %d; not modelled: %s" % (
        len(reg), len([n for n in reg if n in mod]), ", ".join(unc)))
    return reg, mod


# ------------------------------------------------------------------------------
# sources
# ------------------------------------------------------------------------------
def source_setup(src, literal):
    """-> (expression text of the source, data to pass)"""
    k = src[0]
    if k == "tuple":
        return (vtext(src[1]), None) if literal else ("$", list(src[1]))
    if k == "iter":
        return "$", iter(list(src[1]))
    if k == "set":
        return (set_text(src[1]), None) if literal or not _plain_hashable(src[1]) else ("$", _mkset(src[1]))
    if k == "dict":
        return (dict_text(src[1]), None) if literal or not _plain_hashable([a for a, _ in src[1]]) else ("$", _mkdict(src[1]))
    if k == "range":
        if src[3] == 1 and src[1] == 0 and not literal:
            return "range(%d)" % src[2], None
        if src[3] == 1 and literal:
            return "range(%d, %d)" % (src[1], src[2]), None
        return "range(%d, %d, %d)" % (src[1], src[2], src[3]), None
    if k == "sequence":
        return ("sequence(%d)" % src[1] if src[1] != 0 or literal else "sequence()"), None
    if k == "recs":
        recs = [{"a": x, "b": 0} for x in src[2]]
        return "$", (recs if src[1] == "tuple" else iter(recs))
    if k == "generate":
        args = [vtext(src[1]), lam_body(src[2]), lam_body(src[3])]
        if src[4] is not None:
            args.append(lam_body(src[4]))
        if src[5]:
            args.append("decycle => true")
        return "generate(%s)" % ", ".join(args), None
    if k == "generateMany":
        args = [str(src[1]), "[$ * 2, $ * 2 + 1].where($ < %d)" % src[2]]
        if src[3] is not None:
            args.append(lam_body(src[3]))
        if src[4]:
            args.append("decycle => true")
        if src[5]:
            args.append("depthFirst => true")
        return "generateMany(%s)" % ", ".join(args), None
    if k == "repeat":
        recv = "(%s)" % vtext(src[1]) if isinstance(src[1], int) and not isinstance(src[1], bool) and src[1] < 0 else vtext(src[1])
        return ("%s.repeat(%d)" % (recv, src[2]) if src[2] != -1 else "%s.repeat()" % recv), None
    raise ValueError(src)


def _plain_hashable(vs):
    return all(v is None or isinstance(v, int) for v in vs)


def _mkset(vs):
    s = set()
    for v in vs:          # first occurrence wins, as for set(...) in yaql
        if v not in s:
            s.add(v)
    return s


def _mkdict(kvs):
    d = {}
    for k, v in kvs:
        d[k] = v
    return d


def source_gal(src):
    k = src[0]
    if k == "tuple":
        return gal.app("SrcTuple", gvals(src[1]))
    if k == "iter":
        return gal.app("SrcIter", gvals(src[1]))
    if k == "set":
        return gal.app("SrcSetOf", gvals(src[1]))
    if k == "dict":
        return gal.app("SrcDictOf", gkvs(src[1]))
    if k == "range":
        return gal.app("SrcRange", gal.z(src[1]), gal.z(src[2]), gal.z(src[3]))
    if k == "sequence":
        return gal.app("SrcSequence", gal.z(src[1]))
    if k == "recs":
        return gal.app("SrcTuple" if src[1] == "tuple" else "SrcIter", gvals(src[2]))
    if k == "generateMany":
        return gal.app("SrcGenerateMany", gal.z(src[1]), gal.z(src[2]), gopt(src[3], lam_gal), gal.boolean(src[4]), gal.boolean(src[5]))
    if k == "generate":
        return gal.app("SrcGenerate", gval(src[1]), lam_gal(src[2]), lam_gal(src[3]), gopt(src[4], lam_gal), gal.boolean(src[5]))
    if k == "repeat":
        return gal.app("SrcRepeat", gval(src[1]), gal.z(src[2]))
    raise ValueError(src)


# ------------------------------------------------------------------------------
# running the implementation; canonical observations
# ------------------------------------------------------------------------------
def err_class(e):
    if isinstance(e, (yexc.NoMatchingMethodException, yexc.NoMatchingFunctionException)):
        return "ENoMatch"
    if isinstance(e, yexc.CollectionTooLargeException):
        return "ETooLarge"
    if isinstance(e, AssertionError):
        return "EOther"
    if isinstance(e, StopIteration):
        return "EStop"
    if isinstance(e, IndexError):
        return "EIndex"
    if isinstance(e, KeyError):
        return "EKey"
    if isinstance(e, ValueError):
        return "EValue"
    if isinstance(e, TypeError):
        return "EType"
    return "EOther"


def canon(r):
    """finalised result -> ('val', v) | ('set', [..]) | ('dict', [(k, v)..]) with tuples for sequences"""
    def cv(x):
        if x is None or isinstance(x, (bool, int)):
            return x
        if isinstance(x, (list, tuple)):
            return tuple(cv(t) for t in x)
        if isinstance(x, str):
            return x
        if isinstance(x, dict):
            return {cv(k): cv(t) for k, t in x.items()}
        raise ValueError("result outside the modelled universe: %r" % (x,))
    if isinstance(r, dict):
        return ("dict", [(cv(k), cv(v)) for k, v in r.items()])
    if isinstance(r, (set, frozenset)):
        return ("set", [cv(x) for x in r])
    return ("val", cv(r))


def sort_key(v):
    if v is None:
        return (0, 0)
    if isinstance(v, bool):
        return (1, int(v))
    if isinstance(v, int):
        return (2, v)
    if isinstance(v, str):
        return (2.5, v)
    if isinstance(v, dict):
        return (4, tuple((sort_key(k), sort_key(x)) for k, x in v.items()))
    return (3, tuple(sort_key(x) for x in v))


def canon_sorted(o):
    """order-free form of an observation (for Python-side comparisons and fingerprints)"""
    if o[0] == "set":
        return ("set", sorted(o[1], key=sort_key))
    if o[0] == "dict":
        return ("dict", sorted(o[1], key=lambda kv: sort_key(kv[0])))
    return o


def obs_gal(o):
    if o[0] == "val":
        return gal.app("OVal", gval(o[1]))
    if o[0] == "set":
        return gal.app("OSet", gvals(o[1]))
    if o[0] == "dict":
        return gal.app("ODict", gkvs(o[1]))
    if o[0] == "err":
        return gal.app("OErr", o[1])
    raise ValueError(o)


class Watchdog(Exception):
    pass


def _alarm(signum, frame):
    raise Watchdog()


WATCHDOG_HITS = [0]


_engine_limited = None


def engine_limited():
    """the engine C13 evaluates with: yaql.limitIterators far above anything a generated case produces, so that a
    change which makes a finite pipeline endless ends in CollectionTooLarge (reported) instead of hanging"""
    global _engine_limited
    if _engine_limited is None:
        _engine_limited = yaql.YaqlFactory().create(options={"yaql.limitIterators": 2000})
    return _engine_limited


def evaluate_fresh(text, mkdata, timeout=10, conv="camel"):
    """evaluate with freshly built data; a watchdog hit is only believed when it repeats (machine load).
    After a few confirmed hits (a tree on which evaluations hang) the patience is reduced so that the run ends."""
    ctx = context(conv)
    eng = engine_opts(limit=2000, quota=(len(text) % 2 == 0), legacy=LEGACY in conv)
    if WATCHDOG_HITS[0] >= 2:
        return evaluate(text, mkdata(), 2, eng=eng, ctx=ctx)
    o = evaluate(text, mkdata(), timeout, eng=eng, ctx=ctx)
    if o[0] == "err" and o[1] == "EOther" and o[2].startswith("watchdog"):
        o = evaluate(text, mkdata(), 3 * timeout, eng=eng, ctx=ctx)
        if o[0] == "err" and o[1] == "EOther" and o[2].startswith("watchdog"):
            WATCHDOG_HITS[0] += 1
    return o


QUOTA = 10 ** 9          # a memory quota that no generated case comes near: it must change nothing
_engines_opt = {}


def engine_opts(**opts):
    """an engine per option set, e.g. engine_opts(quota=True, limit=3, noconv=True)"""
    key = tuple(sorted(opts.items()))
    if key not in _engines_opt:
        o = {}
        if opts.get("quota"):
            o["yaql.memoryQuota"] = QUOTA
        if opts.get("limit") is not None:
            o["yaql.limitIterators"] = opts["limit"]
        if opts.get("noconv"):
            o["yaql.convertInputData"] = False
        if opts.get("rawout"):
            o["yaql.convertOutputData"] = False
        fac = yaql.YaqlFactory
        if opts.get("legacy"):
            fac = yaql.legacy.YaqlFactory
        _engines_opt[key] = fac(allow_delegates=bool(opts.get("delegates"))).create(options=o)
    return _engines_opt[key]


_engines_lim = {}


def engine_with_limit(n):
    """engines with yaql.limitIterators = n (the limit itself is what is being compared)"""
    if n not in _engines_lim:
        _engines_lim[n] = yaql.YaqlFactory().create(options={"yaql.limitIterators": n})
    return _engines_lim[n]


def gen_lim_stages(rng, n, terminal=True):
    """pipelines of the functions whose only iterable parameter is the receiver (what Model/Streams.v models under a limit)"""
    stages, kind = [], None
    for _ in range(rng.randrange(1, 4)):
        k = rng.choice(["where", "select", "selectMany", "skip", "take", "takeWhile", "skipWhile", "append", "distinct", "enumerate",
                        "accumulate", "delete", "replace", "memorize", "toList", "insert", "take", "skip"])
        if k == "where":
            stages.append(("where", rng.choice([("gt", 1), ("modeq", 2, 0), ("neq", 3), ("lt", 6)])))
        elif k == "select":
            stages.append(("select", rng.choice([("add", 1), ("mul", 2), ("mod", 3)])))
        elif k == "selectMany":
            stages.append(("selectMany", rng.choice([("pair",), ("add", 1)])))
        elif k in ("skip", "take"):
            stages.append((k, rng.randrange(-1, n + 3)))
        elif k in ("takeWhile", "skipWhile"):
            stages.append((k, rng.choice([("lt", 3), ("lt", 6), ("gt", 0)])))
        elif k == "append":
            stages.append(("append", tuple(rng.choice(INTS) for _ in range(rng.randrange(0, 3)))))
        elif k == "distinct":
            stages.append(("distinct", rng.choice([None, ("mod", 3)])))
        elif k == "enumerate":
            stages.append(("enumerate", rng.choice([None, 1])))
            break
        elif k == "accumulate":
            stages.append(("accumulate", ("add2",), rng.choice([NOSEED, 0])))
        elif k == "delete":
            stages.append(("delete", rng.randrange(0, 4), rng.choice([None, 0, 2])))
        elif k == "replace":
            stages.append(("replace", rng.randrange(0, 4), 9, rng.choice([None, 2])))
        elif k == "insert":
            stages.append(("insert", rng.randrange(0, 4), 9))
        else:
            stages.append((k,))
    if terminal and rng.random() < 0.35:
        t = rng.choice(["first", "last", "any", "all", "indexOf", "indexWhere", "count", "len", "sum"])
        if stages and stages[-1][0] == "enumerate":
            t = rng.choice(["first", "last", "count", "len"])
        if t in ("first", "last"):
            stages.append((t, rng.choice([NOSEED, 7])))
        elif t in ("any", "all"):
            stages.append((t, rng.choice([("gt", 2), ("lt", 9)])))
        elif t == "indexOf":
            stages.append(("indexOf", rng.choice(INTS)))
        elif t == "indexWhere":
            stages.append(("indexWhere", ("gt", 3)))
        elif t == "sum":
            stages.append(("sum", 0))
        else:
            stages.append((t,))
    return stages


_engine_noconv = None


def engine_noconv():
    """an engine with yaql.convertInputData switched off (data reaches the query as it is)"""
    global _engine_noconv
    if _engine_noconv is None:
        _engine_noconv = yaql.YaqlFactory().create(options={"yaql.convertInputData": False})
    return _engine_noconv


def evaluate(text, data=None, timeout=20, ctx=None, eng=None):
    """-> ('val'|'set'|'dict', ...) or ('err', class, detail)"""
    old = signal.signal(signal.SIGALRM, _alarm)
    signal.alarm(timeout)
    try:
        r = (eng or engine())(text).evaluate(data=data, context=ctx if ctx is not None else context())
        return canon(r)
    except Watchdog:
        return ("err", "EOther", "watchdog: no result within %ds" % timeout)
    except ValueError as e:
        if str(e).startswith("result outside") or str(e).startswith("value outside"):
            return ("err", "EOther", str(e))
        return ("err", err_class(e), "%s: %s" % (type(e).__name__, str(e)[:120]))
    except BaseException as e:           # StopIteration included
        if isinstance(e, (KeyboardInterrupt, SystemExit)):
            raise
        return ("err", err_class(e), "%s: %s" % (type(e).__name__, str(e)[:120]))
    finally:
        signal.alarm(0)
        signal.signal(signal.SIGALRM, old)


def pipeline_text(src_text, stages, probe=False, aliases=None):
    pr = Probe(probe)
    expr = src_text
    for j, sg in enumerate(stages):
        expr = stage_apply_text(expr, sg, pr, alias=(aliases[j] if aliases else 0))
    return expr


# ------------------------------------------------------------------------------
# typed random generation
# ------------------------------------------------------------------------------
INTS = list(range(-3, 10))
STRS = ["", "a", "ab", "b", "ba", "abc", "c", "B"]


def gen_value(rng, shape):
    if shape == "int":
        return rng.choice(INTS)
    if shape == "intnull":
        return None if rng.random() < 0.3 else rng.choice(INTS)
    if shape == "pairint":
        return (rng.choice(INTS[:8]), rng.choice(INTS[:8]))
    if shape == "str":
        return rng.choice(STRS)
    if shape == "rec":
        a, b = rng.choice(INTS[:5]), rng.choice(STRS[:4])
        return {"a": a, "b": b} if rng.random() < 0.5 else {"b": b, "a": a}      # the same content in either insertion order
    r = rng.random()
    if r < 0.4:
        return rng.choice(INTS)
    if r < 0.55:
        return None
    if r < 0.8:
        return tuple(rng.choice(INTS[:6]) for _ in range(rng.randrange(0, 3)))
    return (rng.choice(INTS[:5]), (rng.choice(INTS[:5]),))


def gen_values(rng, shape, n, dup=0.35):
    out = []
    for _ in range(n):
        if out and rng.random() < dup:
            v = rng.choice(out)
            if isinstance(v, dict) and len(v) > 1 and rng.random() < 0.6:
                v = dict(reversed(list(v.items())))       # an EQUAL dict built in the opposite order
            out.append(v)
        else:
            out.append(gen_value(rng, shape))
    return out


def gen_lam(rng, shape, want):
    """want: 'pred' | 'key' (orderable result) | 'any'"""
    c = rng.choice([-2, -1, 0, 1, 2, 3, 4, 5])
    m = rng.choice([2, 3, -2])
    if shape == "int":
        preds = [("gt", c), ("lt", c), ("eq", c), ("neq", c), ("modeq", m, rng.choice([0, 1, -1])), ("isnull",), ("id",)]
        keys = [("id",), ("mod", m), ("mul", rng.choice([-1, 2, 0])), ("add", c), ("const", c)]
        others = [("pair",), ("pairmod", m)]
    elif shape == "intnull":
        preds = [("gt", c), ("lt", c), ("eq", c), ("neq", c), ("isnull",), ("id",)]
        keys = [("id",), ("const", c)]
        others = [("pair",)]
    elif shape == "pairint":
        preds = [("isnull",), ("eq", c), ("id",)]
        keys = [("idx", 0), ("idx", 1), ("const", c)]
        others = [("pair",), ("id",)]
    elif shape == "str":
        preds = [("strlt", rng.choice(STRS[1:])), ("isnull",), ("id",), ("eq", c)]
        keys = [("id",), ("strlen",), ("id",), ("const", c)]
        others = [("strcat", rng.choice(STRS)), ("pair",)]
    elif shape == "rec":
        preds = [("fieldgt", "a", c), ("isnull",), ("id",)]
        keys = [("field", "a"), ("field", "b"), ("const", c)]
        others = [("pair",), ("id",)]
    else:
        preds = [("isnull",), ("eq", c), ("neq", c), ("id",)]
        keys = [("const", c)]
        others = [("pair",), ("id",)]
    if want == "pred":
        return rng.choice(preds)
    if want == "key":
        return rng.choice(keys)
    return rng.choice(preds + keys + keys + others)


def lam_shape(l, shape):
    k = l[0]
    if k == "id":
        return shape
    if k in ("gt", "lt", "eq", "neq", "isnull", "modeq"):
        return "other"
    if k in ("mod", "add", "mul", "const"):
        return "int"
    if k == "idx":
        return "int"
    if k == "pairmod":
        return "pairint"
    if k == "pair":
        return "pairint" if shape == "int" else "other"
    if k == "field":
        return "int" if l[1] == "a" else "str"
    if k == "strlen":
        return "int"
    if k == "strcat":
        return "str"
    return "other"


def gen_pos(rng, n):
    return rng.randrange(-3, n + 4)


STREAM_KINDS = ("seq", "iter", "ord")


def gen_stage(rng, kind, shape, n, allow_terminal=True, streaming_only=False, certain=True):
    """-> (stage, new kind, new shape, new length estimate) for a receiver that is a sequence/iterator"""
    ops = ["where", "select", "skip", "take", "takeWhile", "skipWhile", "append", "distinct", "enumerate",
           "zip", "insert", "insertMany", "delete", "replace", "replaceMany", "slice", "memorize", "selectMany",
           "accumulate", "concat"]
    if streaming_only:
        ops += ["join", "plus", "defaultIfEmpty", "assertAny"]
    if not streaming_only:
        ops += ["reverse", "orderBy", "groupBy", "join", "splitAt", "splitWhere", "sliceWhere", "toList", "plus",
                "orderBy", "groupBy", "toSet", "flatten", "defaultIfEmpty", "times", "assertAny", "groupByAgg", "with", "zipLongest", "listOf"]
        ops += ["thenBy"]
        if kind == "ord":
            ops += ["thenBy"] * 6
        if allow_terminal:
            ops += ["aggregate", "sum", "min", "max", "first", "last", "single", "any", "all", "indexOf",
                    "lastIndexOf", "indexWhere", "lastIndexWhere", "len", "count", "contains", "toDict",
                    "dictFromItems", "in", "index", "isKind", "unpackNamed", "unpackIdx"]
    k = rng.choice(ops)
    it = "iter"
    if k == "where":
        return ("where", gen_lam(rng, shape, "pred")), it, shape, n
    if k == "select":
        l = gen_lam(rng, shape, "any")
        return ("select", l), it, lam_shape(l, shape), n
    if k == "selectMany":
        l = gen_lam(rng, shape, "any")
        s2 = lam_shape(l, shape)
        if l[0] == "pair":
            s2 = shape
        elif l[0] == "pairmod":
            s2 = "int"
        elif l[0] == "id" and shape == "pairint":
            s2 = "int"
        elif l[0] == "id" and shape == "other":
            s2 = "other"
        return ("selectMany", l), it, s2, 2 * n
    if k in ("skip", "take"):
        return (k, gen_pos(rng, n)), it, shape, n
    if k in ("takeWhile", "skipWhile"):
        return (k, gen_lam(rng, shape, "pred")), it, shape, n
    if k == "append":
        return ("append", tuple(gen_values(rng, shape, rng.randrange(0, 3)))), it, shape, n + 2
    if k == "concat":
        return ("concat", tuple(tuple(gen_values(rng, shape, rng.randrange(0, 3))) for _ in range(rng.randrange(1, 3)))), it, shape, n + 3
    if k == "plus":
        return ("plus", tuple(gen_values(rng, shape, rng.randrange(0, 3)))), ("seq" if kind == "seq" else it), shape, n + 2
    if k == "distinct":
        if rng.random() < 0.5:
            return ("distinct", None), it, shape, n
        return ("distinct", gen_lam(rng, shape, "any")), it, shape, n
    if k == "enumerate":
        return ("enumerate", rng.choice([None, None, 0, 1, -2, 5])), it, ("pairint" if shape == "int" else "other"), n
    if k == "zip":
        ls = tuple(tuple(gen_values(rng, shape, rng.randrange(0, n + 3))) for _ in range(rng.choice([0, 1, 1, 1, 2])))
        return ("zip", ls), it, ("pairint" if shape == "int" and len(ls) == 1 else "other"), n
    if k == "accumulate":
        if shape == "int":
            f = rng.choice(["add2", "mul2", "max2", "min2", "fst", "snd"])
            seed = rng.choice([NOSEED, NOSEED, 0, 1, 10])
            return ("accumulate", (f,), seed), it, "int", n + 1
        f = rng.choice(["fst", "snd", "pair2"])
        return ("accumulate", (f,), NOSEED), it, (shape if f != "pair2" else "other"), n
    if k == "insert":
        pos = gen_pos(rng, n)
        if not certain:
            pos = abs(pos)       # the two overloads differ for negative positions (F18): only on receivers of known kind
        return ("insert", pos, gen_value(rng, shape)), ("seq" if kind == "seq" else it), shape, n + 1
    if k == "insertMany":
        return ("insertMany", gen_pos(rng, n), tuple(gen_values(rng, shape, rng.randrange(0, 3)))), it, shape, n + 2
    if k == "delete":
        return ("delete", gen_pos(rng, n), rng.choice([None, None, -2, -1, 0, 1, 2, 3, n, n + 2])), it, shape, n
    if k == "replace":
        return ("replace", gen_pos(rng, n), gen_value(rng, shape), rng.choice([None, None, -2, -1, 0, 1, 2, 3, n + 2])), it, shape, n
    if k == "replaceMany":
        return ("replaceMany", gen_pos(rng, n), tuple(gen_values(rng, shape, rng.randrange(0, 3))),
                rng.choice([None, None, -2, -1, 0, 1, 2, 3, n + 2])), it, shape, n + 2
    if k == "slice":
        return ("slice", rng.choice([-1, 0, 1, 1, 2, 2, 3, n, n + 1])), it, "other", n
    if k == "memorize":
        return ("memorize",), kind, shape, n
    if k == "reverse":
        return ("reverse",), it, shape, n
    if k == "orderBy":
        return ("orderBy", gen_lam(rng, shape, "key"), rng.random() < 0.6), "ord", shape, n
    if k == "thenBy":
        return ("thenBy", gen_lam(rng, shape, "key"), rng.random() < 0.6), "ord", shape, n
    if k == "groupBy":
        return ("groupBy", gen_lam(rng, shape, "any"), rng.choice([None, None, gen_lam(rng, shape, "any")])), it, "other", n
    if k == "join":
        if shape == "int" and rng.random() < 0.4:
            a = rng.randrange(-2, 4)
            return ("joinRange", a, a + rng.randrange(0, 5), (rng.choice(["gt2", "eq2"]),),
                    (rng.choice(["add2", "pair2", "fst", "snd"]),)), it, "other", n
        if shape == "int":
            return ("join", tuple(gen_values(rng, "int", rng.randrange(0, 4))), (rng.choice(["gt2", "eq2"]),),
                    (rng.choice(["add2", "pair2", "fst", "snd"]),)), it, "other", n
        return ("join", tuple(gen_values(rng, shape, rng.randrange(0, 3))), ("eq2",), (rng.choice(["pair2", "fst", "snd"]),)), it, "other", n
    if k == "splitAt":
        return ("splitAt", gen_pos(rng, n)), "seq", "other", 2
    if k in ("splitWhere", "sliceWhere"):
        return (k, gen_lam(rng, shape, "pred")), it, "other", n
    if k == "groupByAgg" and shape == "int" and rng.random() < 0.35:
        agg = []
        for _ in range(rng.randrange(0, 3)):
            a = rng.choice(["where", "select", "skip", "take", "reverse", "orderBy"])
            if a == "where":
                agg.append(("where", gen_lam(rng, "int", "pred")))
            elif a == "select":
                agg.append(("select", rng.choice([("add", 1), ("mul", 2), ("mod", 3)])))
            elif a in ("skip", "take"):
                agg.append((a, rng.randrange(0, 3)))
            elif a == "reverse":
                agg.append(("reverse",))
            else:
                agg.append(("orderBy", ("id",), rng.random() < 0.5))
        return ("groupByAggP", gen_lam(rng, shape, "key"), rng.choice([None, ("add", 1)]), tuple(agg), rng.randrange(4)), it, "other", n
    if k == "groupByAgg" and shape == "int" and rng.random() < 0.4:
        return ("groupByLegacy", gen_lam(rng, shape, "key"), rng.choice([None, ("add", 1)]), rng.choice([0, 1, 2])), it, "other", n
    if k == "groupByAgg":
        agg = rng.choice([0, 0, 1, 2]) if shape == "int" else 0
        vl = rng.choice([None, ("id",), ("add", 1)]) if shape == "int" else None
        return ("groupByAgg", gen_lam(rng, shape, "any"), vl, agg), it, "other", n
    if k == "with":
        return ("with",), kind, shape, n
    if k == "zipLongest":
        ls = tuple(tuple(gen_values(rng, shape, rng.randrange(0, n + 3))) for _ in range(rng.choice([0, 1, 1, 2])))
        return ("zipLongest", ls, rng.choice([NOSEED, NOSEED, 0, None])), it, "other", n + 2
    if k == "listOf":
        if kind not in ("seq", "iter"):
            return ("toList",), "seq", shape, n
        # whether the receiver is spliced or nested depends on its run-time kind: element shape unknown afterwards
        return ("listOf", tuple(gen_values(rng, shape, rng.randrange(0, 3)))), "seq", "other", n + 2
    if k == "unpackNamed":
        return ("unpackNamed", rng.choice([1, 2, 2, 3, max(1, min(n, 4)), max(1, min(n, 4))])), "scalar", "other", 0
    if k == "unpackIdx":
        return ("unpackIdx", tuple(rng.choice([2, 3, 4]) for _ in range(rng.randrange(1, 3)))), "scalar", "other", 0
    if k == "flatten":
        return ("flatten",), it, ("int" if shape in ("int", "pairint") else shape if shape == "intnull" else "other"), 2 * n
    if k == "assertAny":
        return ("assertAny",), kind, shape, n
    if k == "defaultIfEmpty":
        return ("defaultIfEmpty", tuple(gen_values(rng, shape, rng.randrange(0, 3)))), kind, shape, n + 1
    if k in ("times", "index", "isKind") and not certain:
        return ("toList",), "seq", shape, n
    if k == "times":
        if kind != "seq" and rng.random() < 0.7:
            return ("toList",), "seq", shape, n
        return ("times", rng.choice([-1, 0, 1, 2, 3])), "seq", shape, 2 * n
    if k == "in":
        return ("in", gen_value(rng, shape)), "scalar", "other", 0
    if k == "index":
        if kind != "seq" and rng.random() < 0.7:
            return ("toList",), "seq", shape, n
        return ("index", rng.randrange(-n - 2, n + 3)), "scalar", "other", 0
    if k == "isKind":
        return (rng.choice(["isList", "isDict", "isSet", "isIterable"]),), "scalar", "other", 0
    if k == "toList":
        return ("toList",), "seq", shape, n
    if k == "toSet":
        return ("toSet",), "set", shape, n
    # ---- terminals
    if k == "aggregate":
        if shape == "int":
            return ("aggregate", (rng.choice(["add2", "mul2", "max2", "min2", "fst", "snd", "pair2"]),),
                    rng.choice([NOSEED, NOSEED, 0, 1])), "scalar", "other", 0
        return ("aggregate", (rng.choice(["fst", "snd", "pair2"]),), NOSEED), "scalar", "other", 0
    if k == "sum":
        if shape != "int":
            return ("count",), "scalar", "other", 0
        return ("sum", rng.choice([NOSEED, NOSEED, 0, 5])), "scalar", "other", 0
    if k in ("min", "max"):
        if shape != "int":
            return ("len",), "scalar", "other", 0
        return (k, rng.choice([NOSEED, NOSEED, 0, 4])), "scalar", "other", 0
    if k in ("first", "last"):
        return (k, rng.choice([NOSEED, NOSEED, None, 7])), "scalar", "other", 0
    if k in ("single", "len", "count"):
        return (k,), "scalar", "other", 0
    if k in ("any", "all"):
        return (k, rng.choice([None, gen_lam(rng, shape, "pred")])), "scalar", "other", 0
    if k in ("indexOf", "lastIndexOf", "contains"):
        return (k, gen_value(rng, shape)), "scalar", "other", 0
    if k in ("indexWhere", "lastIndexWhere"):
        return (k, gen_lam(rng, shape, "pred")), "scalar", "other", 0
    if k == "toDict":
        kl = gen_lam(rng, shape, "any")
        if lam_shape(kl, shape) in ("pairint", "other") and kl[0] not in ("gt", "lt", "eq", "neq", "isnull", "modeq"):
            kl = gen_lam(rng, shape, "key")     # sequence-valued keys cannot be finalised (F8): kept out
        return ("toDict", kl, rng.choice([None, gen_lam(rng, shape, "any")])), "dict", "other", n
    if k == "dictFromItems":
        return ("dictFromItems",), "dict", "other", n
    raise ValueError(k)


def gen_self(rng, shape, must_memo):
    """a let-bound collection traversed again while a traversal of it is suspended"""
    ops = [("zip",), ("zipskip", rng.randrange(0, 3)), ("firstall",), ("join", ("eq2",), (rng.choice(["pair2", "fst", "snd"]),))]
    if shape == "int":
        ops += [("selagg", rng.choice([1, 10, 100]), rng.randrange(6)), ("selagg", 100, 0), ("wheremax",), ("selmany", rng.randrange(0, 3)),
                ("countsum",), ("join", (rng.choice(["gt2", "eq2"]),), (rng.choice(["add2", "pair2"]),))]
    return ("self", rng.choice(ops), True if must_memo else rng.random() < 0.5)


def gen_set_stage(rng, shape):
    k = rng.choice(["union", "intersect", "difference", "symmetricDifference", "setAdd", "setRemove"])
    return (k, tuple(gen_values(rng, shape, rng.randrange(0, 4))))


def gen_nested(rng, depth):
    d = {}
    for _ in range(rng.randrange(0, 3)):
        k = rng.choice([1, 2, 3])
        d[k] = gen_nested(rng, depth - 1) if depth > 0 and rng.random() < 0.4 else rng.choice([rng.choice(INTS), (rng.choice(INTS[:5]),), "a"])
    return d


def gen_dict(rng, n, nested=0.0):
    return tuple((rng.choice([None] + INTS[:8]),
                  gen_nested(rng, 2) if rng.random() < nested else gen_value(rng, rng.choice(["int", "int", "other"]))) for _ in range(n))


def gen_dict_stage(rng):
    k = rng.choice(["dictSet", "dictDelete", "dictDeleteAll", "dictPlus", "mergeWith", "delete", "dictSetMany", "dictSetInline"])
    if k in ("dictSetMany", "dictSetInline"):
        d = tuple((a, b) for a, b in gen_dict(rng, rng.randrange(1, 4)))
        return (k, d)
    if k == "dictSet":
        return ("dictSet", rng.choice([None] + INTS[:8]), gen_value(rng, "other"))
    if k in ("dictDelete", "dictDeleteAll"):
        return (k, tuple(rng.choice([None] + INTS[:8]) for _ in range(rng.randrange(0, 3))))
    if k == "delete":
        return ("delete", rng.choice(INTS[:8]), rng.choice([None, 1, 2, 5]))
    return (k, tuple((a, b) for a, b in gen_dict(rng, rng.randrange(0, 4)) if not isinstance(a, tuple)))


MEMO_STAGES = ("memorize", "defaultIfEmpty", "assertAny")


def memo_clash(stages, sg):
    """assert hands an OrderingIterable on as it is, already sorted, and a later thenBy is then ignored: not modelled, kept
    out of the cases.  (assert / defaultIfEmpty / memorize on an already memorized iterator are ordinary cases: F24 is fixed.)"""
    return sg[0] == "assertAny" and bool(stages) and stages[-1][0] in ("orderBy", "thenBy")


def gen_pipeline(rng, maxlen=4):
    """-> (source, stages).  The generator tracks the shape of the elements so that every lambda is
    applied to values on which its body is defined, and keeps set-iteration order out of the result."""
    r = rng.random()
    stages = []
    if r < 0.62:
        shape = rng.choice(["int", "int", "int", "intnull", "pairint", "other", "str", "rec"])
        n = rng.choice([0, 0, 1, 2, 3, 3, 4, 5, 6, 8])
        vals = tuple(gen_values(rng, shape, n))
        kind = rng.choice(["seq", "iter"])
        src = ("tuple" if kind == "seq" else "iter", vals)
    elif r < 0.7:
        a, b = rng.randrange(-3, 5), rng.randrange(-3, 9)
        src, kind, shape, n = ("range", a, b, rng.choice([1, 1, 2, -1, -2, 3])), "iter", "int", 5
    elif r < 0.715:
        src, kind, shape, n = ("repeat", rng.choice([None, 1, -2, (1, 2)]), rng.randrange(0, 5)), "iter", "other", 4
    elif r < 0.722:
        sel = rng.choice([None, None, ("add", 10), ("pair",)])
        src = ("generateMany", rng.choice([1, 1, 2, 3, 0]), rng.randrange(0, 14), sel, rng.random() < 0.4, rng.random() < 0.5)
        if src[1] <= 0 and not src[4]:
            src = src[:4] + (True,) + src[5:]        # 0 -> [0, 1]: only terminates with decycle
        kind, shape, n = "iter", ("int" if sel != ("pair",) else "pairint"), 6
    elif r < 0.73:
        d = rng.choice([1, 2, 3])
        sel = rng.choice([None, None, ("mul", 2), ("pair",)])
        decy = rng.random() < 0.3
        prod = ("add", d) if not decy else rng.choice([("add", d), ("mod", 3), ("mul", 1)])
        src = ("generate", rng.randrange(-2, 3), ("lt", rng.randrange(0, 9)), prod, sel, decy)
        kind, shape, n = "iter", ("int" if sel in (None, ("mul", 2)) else "pairint"), 5
    elif r < 0.86:
        shape = rng.choice(["int", "int", "intnull", "rec"])
        vals = tuple(gen_values(rng, shape, rng.randrange(0, 7), dup=0.5 if shape == "rec" else 0.35))
        src, kind, n = ("set", vals), "set", len(vals)
    else:
        src, kind, shape, n = ("dict", gen_dict(rng, rng.randrange(0, 6), nested=rng.choice([0.0, 0.0, 0.5]))), "dict", "other", 4
    if src[0] in ("tuple", "iter") and shape == "int" and rng.random() < 0.06:
        src = ("recs", src[0], src[1])
        stages.append(("attr",))
        kind = "iter"
    if src[0] == "dict" and rng.random() < 0.25:
        # deep-merge options, directly on a dict whose value shapes are known
        d2 = []
        for a, b in src[1][:3]:
            if rng.random() < 0.7:
                if isinstance(b, dict):
                    d2.append((a, gen_nested(rng, 2) if rng.random() < 0.85 else rng.choice(INTS)))
                else:
                    d2.append((a, tuple(gen_values(rng, "int", rng.randrange(0, 3))) if isinstance(b, tuple) else rng.choice(INTS)))
        d2 += [(a, b) for a, b in gen_dict(rng, rng.randrange(0, 2))]
        lm = rng.choice([None, None, ("add2",), ("snd",), ("fst",)])
        im = rng.choice([None, None, ("fst",), ("snd",), ("pair2",)])
        stages.append(("mergeWithX", tuple(d2), lm, im, rng.choice([None, None, 0, 1, 2, 3])))
    budget = rng.randrange(1, maxlen + 1)
    while budget > 0:
        budget -= 1
        if kind == "scalar":
            break
        if kind == "set":
            rr = rng.random()
            if rr < 0.45 and shape in ("int", "intnull", "rec"):
                stages.append(gen_set_stage(rng, shape))
                continue
            if shape == "rec":        # a set of dicts cannot be finalised (F8): observed through its size and membership
                t = rng.choice(["len", "count", "in", "contains"])
                stages.append((t,) if t in ("len", "count") else (t, gen_value(rng, "rec")))
                kind = "scalar"
                continue
            if shape not in ("int", "intnull"):
                stages.append(rng.choice([("len",), ("count",)]))
                kind = "scalar"
                continue
            if rr < 0.62:
                stages.append(("orderBy", ("id",), rng.random() < 0.7))
                kind = "ord"
                continue
            if rr < 0.72:
                stages.append(("where", gen_lam(rng, shape, "pred")))
                stages.append(rng.choice([("toSet",), ("orderBy", ("id",), True)]))
                kind = "set" if stages[-1][0] == "toSet" else "ord"
                continue
            if rr < 0.76:
                stages.append(("insert", 0, 1))      # not applicable to sets
                kind = "scalar"
                continue
            t = rng.choice(["len", "count", "contains", "sum", "min", "max", "any", "all", "setCmp", "setCmp", "in", "isKind", "defaultIfEmpty"])
            if t in ("sum", "min", "max") and shape != "int":
                t = "len"
            if t == "setCmp":
                stages.append(("setCmp", rng.randrange(4), tuple(gen_values(rng, shape, rng.randrange(0, 4)))))
            elif t == "in":
                stages.append(("in", gen_value(rng, shape)))
            elif t == "isKind":
                stages.append((rng.choice(["isList", "isDict", "isSet", "isIterable"]),))
            elif t == "defaultIfEmpty":
                stages.append(("defaultIfEmpty", tuple(gen_values(rng, shape, rng.randrange(0, 3)))))
                stages.append(("len",))
            elif t == "contains":
                stages.append(("contains", gen_value(rng, shape)))
            elif t == "sum":
                stages.append(("sum", NOSEED))
            elif t in ("any", "all"):
                stages.append((t, gen_lam(rng, shape, "pred")))
            else:
                stages.append((t,))
            kind = "scalar"
            continue
        if kind == "dict":
            rr = rng.random()
            if rr < 0.5:
                stages.append(gen_dict_stage(rng))
                continue
            if rr < 0.56:
                stages.append(("keysView",))
                stages.append(gen_self(rng, "other", rng.random() < 0.5))
                break
            if rr < 0.75:
                t = rng.choice(["keysList", "valuesList", "itemsList"])
                stages.append((t,))
                kind, shape, n = "seq", "other", 4
                continue
            t = rng.choice(["len", "dictGet", "containsKey", "containsValue", "where", "count", "index", "indexDefault", "isKind"])
            if t == "index":
                stages.append(("index", rng.choice([None] + INTS[:8])))
            elif t == "indexDefault":
                stages.append(("indexDefault", rng.choice([None] + INTS[:8]), rng.choice([None, 0, 7])))
            elif t == "isKind":
                stages.append((rng.choice(["isList", "isDict", "isSet", "isIterable"]),))
            elif t == "dictGet":
                stages.append(("dictGet", rng.choice([None] + INTS[:8]), rng.choice([NOSEED, 0, None])))
            elif t in ("containsKey", "containsValue"):
                stages.append((t, rng.choice([None] + INTS[:8])))
            elif t == "where":
                stages.append(("where", ("id",)))
            else:
                stages.append((t,))
            kind = "scalar"
            continue
        if kind in ("seq", "iter", "ord") and rng.random() < 0.09:
            re_iterable = (not stages and kind == "seq") or (stages and stages[-1][0] in ("toList", "orderBy", "thenBy", "keysList", "valuesList", "itemsList", "splitAt"))
            stages.append(gen_self(rng, shape, not re_iterable))
            break
        if rng.random() < 0.03:
            stages.append(("cycle",))
            stages.append(("take", rng.randrange(0, 9)))
            kind, n = "iter", 8
            continue
        certain = not stages or stages[-1][0] in ("toList", "keysList", "valuesList", "itemsList", "splitAt")
        sg, kind, shape, n = gen_stage(rng, kind, shape, n, certain=certain)
        if memo_clash(stages, sg):
            continue
        stages.append(sg)
    return src, stages


def fb_conv(stages, conv):
    """the context a pipeline runs in: created with group_by_agg_fallback=False when a groupByG stage says so; the legacy
    context / a child context with a host overload of `.` when a collection.name stage says so"""
    if any(s[0] == "groupByG" and not s[2] for s in stages) and NOFB not in conv:
        conv += NOFB
    for s in stages:
        if s[0] == "attrx" and s[2][0] == "legacy" and LEGACY not in conv:
            conv += LEGACY
        if s[0] == "attrx" and s[2][0] == "host" and "!dot" not in conv:
            conv += "!dot%d" % s[2][1]
    return conv


def run_pipeline(src, stages, literal=False, aliases=None, probe=False, conv="camel"):
    text0, _ = source_setup(src, literal)
    text = conv_text(pipeline_text(text0, stages, probe=probe, aliases=aliases), conv)
    return text, evaluate_fresh(text, lambda: source_setup(src, literal)[1], conv=fb_conv(stages, conv))


def case_term(src, stages, obs):
    o = obs if obs[0] != "err" else ("err", obs[1])
    return "{| c_src := %s; c_stages := %s; c_obs := %s |}" % (
        source_gal(src), gal.lst(stage_gal(s) for s in stages), obs_gal(o))


def stages_json(stages):
    def enc(x):
        if x is NOSEED:
            return {"noseed": 1}
        if isinstance(x, tuple):
            return [enc(t) for t in x]
        if isinstance(x, dict):
            return {"__d__": [[enc(k), enc(t)] for k, t in x.items()]}
        return x
    return [enc(s) for s in stages]


def stages_from_json(js):
    def dec(x):
        if isinstance(x, dict) and x.get("noseed"):
            return NOSEED
        if isinstance(x, dict) and "__d__" in x:
            return {dec(k): dec(t) for k, t in x["__d__"]}
        if isinstance(x, list):
            return tuple(dec(t) for t in x)
        return x
    return [dec(s) for s in js]
