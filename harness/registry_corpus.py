"""Representative argument values for the standard-library part of the resolution correspondence:
value class id -> factory of a fresh python object.  Class 0 is the NO_VALUE marker, class 99 stands
for "this parameter's own default value" (see gen_registry.py)."""
import datetime
import re

from yaql.language import utils

UTC = datetime.timezone.utc
MARKER_CLASS = 0
DEFAULT_CLASS = 99
KEYWORD_CLASS = 14          # passed as KeywordConstant('abc') when constant

CLASSES = {
    1: ("int", lambda: 3),
    2: ("float", lambda: 2.5),
    3: ("str", lambda: "abc"),
    4: ("bool", lambda: True),
    5: ("tuple", lambda: (1, 2, 3)),
    6: ("empty tuple", lambda: ()),
    7: ("frozen dict", lambda: utils.FrozenDict({"a": 1, "b": 2})),
    8: ("frozenset", lambda: frozenset([1, 2])),
    9: ("iterator", lambda: iter([1, 2, 3])),
    10: ("datetime", lambda: datetime.datetime(2020, 1, 2, 3, 4, 5, tzinfo=UTC)),
    11: ("timedelta", lambda: datetime.timedelta(hours=1)),
    12: ("regex", lambda: re.compile("[ab]")),
    13: ("object", lambda: _Plain()),
    14: ("keyword abc", lambda: "abc"),
    15: ("int zero", lambda: 0),
    16: ("tuple of pairs", lambda: (("a", 1), ("b", 2))),
}


class _Plain(object):
    pass


def make(c):
    return CLASSES[c][1]()
