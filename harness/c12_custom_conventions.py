"""C12 helper, run in a FRESH interpreter: naming conventions whose FUNCTION-name and PARAMETER-name conversions
differ, created before / after the stock ones.  argv[1] = custom convention ('camel-same' | 'upper-camel'),
argv[2] = creation order ('custom-first' | 'stock-first').  Prints a JSON list of problems.

For every context: (a) alias census - the keyword name of every visible, not explicitly aliased parameter is the
context's own convention's PARAMETER conversion of the python name (computed from the convention object directly,
not through specs.convert_parameter_name); (b) behaviour - a function with multi-word parameters registered in the
context is called positionally, by keyword and mixed (keyword names = the convention's parameter conversion): one result."""
import importlib
import json
import pkgutil
import re
import sys

import yaql                                                   # noqa: F401
import yaql.standard_library as SL
from yaql.language import conventions, yaqltypes

_CAMEL = re.compile(r"(?!^)_(\w)", flags=re.UNICODE)


def camel(name):
    return _CAMEL.sub(lambda m: m.group(1).upper(), name)


class CamelSame(conventions.Convention):
    """functions camelCase, parameters unchanged"""
    def convert_function_name(self, name):
        return camel(name)

    def convert_parameter_name(self, name):
        return name


class UpperCamel(conventions.Convention):
    """functions UPPER (operator / special names starting with # or * are left alone), parameters camelCase"""
    def convert_function_name(self, name):
        return name.upper() if name[:1].isalpha() else name

    def convert_parameter_name(self, name):
        return camel(name)


CUSTOM = {"camel-same": CamelSame, "upper-camel": UpperCamel}


def masters_explicit():
    out = set()
    for m in pkgutil.iter_modules(SL.__path__):
        mod = importlib.import_module("yaql.standard_library." + m.name)
        for obj in vars(mod).values():
            fd = getattr(obj, "__yaql_function__", None)
            if fd is None:
                continue
            for key, p in fd.parameters.items():
                if p.alias is not None:
                    out.add((getattr(obj, "__module__", "?"), getattr(obj, "__qualname__", "?"), p.name))
    return out


def walk(ctx):
    seen = set()
    c = ctx
    while c is not None:
        for name, fds in getattr(c, "_functions", {}).items():
            for fd in fds:
                if id(fd) not in seen:
                    seen.add(id(fd))
                    yield name, fd
        c = c.parent


def probe_function(first_arg, second_arg=5, third_arg_=7):
    return [first_arg, second_arg, third_arg_]


def outcome(f):
    try:
        return ["ok", f()]
    except Exception as e:
        return ["error", type(e).__name__]


def main():
    explicit = masters_explicit()
    convs = {"custom": CUSTOM[sys.argv[1]](), "camel": conventions.CamelCaseConvention(), "py": conventions.PythonConvention()}
    order = ["custom", "camel", "py"] if sys.argv[2] == "custom-first" else ["py", "camel", "custom"]
    engine = yaql.YaqlFactory().create()
    problems = []
    ctxs = [(k, yaql.create_context(convention=convs[k])) for k in order]
    for k, ctx in ctxs:
        conv = convs[k]
        for name, fd in walk(ctx):
            fn = getattr(fd.payload, "__wrapped__", fd.payload)
            mod, qual = getattr(fn, "__module__", "?"), getattr(fn, "__qualname__", "?")
            for key, p in fd.parameters.items():
                if isinstance(p.value_type, yaqltypes.HiddenParameterType) or key in ("*", "**"):
                    continue
                if (mod, qual, p.name) in explicit:
                    continue
                want = conv.convert_parameter_name(p.name.rstrip("_"))
                if p.alias != want:
                    problems.append({"kind": "alias", "context_convention": k, "created": order.index(k) + 1, "function": name,
                                     "parameter": p.name, "alias": p.alias, "required": want})
        # behaviour: all spellings of one call of a function with multi-word parameters
        child = ctx.create_child_context()
        child.register_function(probe_function)
        fname = conv.convert_function_name("probe_function")
        kw = [conv.convert_parameter_name(n.rstrip("_")) for n in ("first_arg", "second_arg", "third_arg_")]
        spellings = {
            "positional": lambda: child(fname, engine)(1, 2, 3),
            "keyword": lambda: child(fname, engine)(**{kw[0]: 1, kw[1]: 2, kw[2]: 3}),
            "mixed": lambda: child(fname, engine)(1, **{kw[1]: 2, kw[2]: 3}),
            "mixed 2": lambda: child(fname, engine)(1, 2, **{kw[2]: 3}),
        }
        results = {label: outcome(f) for label, f in spellings.items()}
        if len({json.dumps(r) for r in results.values()}) > 1:
            problems.append({"kind": "spelling", "context_convention": k, "created": order.index(k) + 1,
                             "function": fname, "keyword_names": kw, "outcomes": results,
                             "required": "the same result for every spelling"})
    print(json.dumps(problems[:40]))


if __name__ == "__main__":
    main()
