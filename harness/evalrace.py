"""Overlapping calls of the module-level convenience route yaql.eval(expression, data) after a LONG history.

yaql.eval keeps one engine, one context and a table of parsed expressions for the whole process (yaql/__init__.py).  Two
callers that overlap - a thread switch at ANY line boundary of the code of yaql/__init__.py, not only at a dispatch or a
token fetch - must each get what their call gives alone, however many distinct texts the process has evaluated before
(so that any bounded table, LRU order, eviction ... the route may keep is full and in use).

Thread A runs under sys.settrace and is held at the k-th line event inside yaql/__init__.py; while it is held, thread B
makes one complete call; then A goes on.  k sweeps all line boundaries A passes.  Used by C01 (a call never gets the tree
or error of another text) and C18 (an evaluation returns what it returns alone)."""
import os
import sys
import threading


def _own_file():
    import yaql
    f = yaql.__file__
    return f[:-1] if f.endswith(".pyc") else f


def held_call(fn_a, fn_b, k, target_file, timeout=20.0):
    """run fn_a in a thread, hold it at its k-th line event inside target_file, run fn_b completely, release.
    returns (result_a, result_b, reached) - reached False when fn_a finished before its k-th line"""
    at_gate, go = threading.Event(), threading.Event()
    out = {}
    count = [0]

    def local(frame, event, arg):
        if event == "line":
            count[0] += 1
            if count[0] == k:
                at_gate.set()
                go.wait(timeout)
        return local

    def tracer(frame, event, arg):
        if event == "call" and frame.f_code.co_filename == target_file:
            return local
        return None

    def body():
        sys.settrace(tracer)
        try:
            out["a"] = ("ok", fn_a())
        except BaseException as e:
            out["a"] = ("err", type(e).__name__, str(e)[:120])
        finally:
            sys.settrace(None)
            at_gate.set()

    t = threading.Thread(target=body, daemon=True)
    t.start()
    at_gate.wait(timeout)
    reached = count[0] >= k and "a" not in out
    try:
        out["b"] = ("ok", fn_b())
    except BaseException as e:
        out["b"] = ("err", type(e).__name__, str(e)[:120])
    go.set()
    t.join(timeout)
    return out.get("a", ("err", "Timeout", "")), out["b"], reached


def run_races(run, label):
    """returns None or a failure dict; reports through run.fail"""
    import yaql
    target = _own_file()
    n = run.n(1500, 5000)
    # the history: n distinct texts, all evaluated correctly one after the other
    for i in range(n):
        got = yaql.eval("%d + $" % i, 1)
        if got != i + 1:
            run.fail("violation", "yaql.eval gives a wrong value in a sequential history of distinct texts",
                     {"route": "yaql.eval", "text": "%d + $" % i, "observed": repr(got), "required": i + 1})
            return
    fresh = [10 ** 6]

    def text_of(kind):
        if kind == "oldest":
            return "0 + $", 0
        if kind == "newest":
            return "%d + $" % (n - 1), n - 1
        if kind == "middle":
            return "%d + $" % (n // 2), n // 2
        fresh[0] += 1
        return "%d + $" % fresh[0], fresh[0]
    races = 0
    for kind_a in ("oldest", "fresh", "newest", "middle", "fresh"):
        for kind_b in ("fresh", "oldest", "fresh"):
            k = 1
            while k < 60:
                ta, va = text_of(kind_a)
                tb, vb = text_of(kind_b)
                ra, rb, reached = held_call(lambda: yaql.eval(ta, 5), lambda: yaql.eval(tb, 7), k, target)
                races += 1
                run.case(("evalrace", label, kind_a, kind_b, k), nontrivial=reached)
                run.count("eval_route_race")
                if ra != ("ok", va + 5) or rb != ("ok", vb + 7):
                    run.fail("violation", "overlapping yaql.eval calls after a long history: a call does not return what it returns alone",
                             {"route": "yaql.eval", "history_length": n, "held_call": ta, "held_at_line_event": k, "other_call": tb,
                              "observed": repr((ra, rb)), "required": repr((("ok", va + 5), ("ok", vb + 7)))})
                    return
                if not reached:
                    break
                k += 1
    # a bounded table: whatever its capacity and its policy (least recently USED, or oldest INSERTED), the entry it would
    # drop next is looked up by the held call while the other call's miss drops it.  Both orders are tracked for every
    # call made so far (the harness cannot see the table; it can know which text WOULD be next for each capacity).
    ins_order = ["%d + $" % i for i in range(n)]
    for t in sorted({"%d + $" % j for j in range(10 ** 6 + 1, fresh[0] + 1)}, key=lambda x: int(x.split()[0])):
        ins_order.append(t)
    use_order = list(ins_order)        # approximation after the races above: re-established by a clean pass below
    for t in ins_order[-min(len(ins_order), 5000):]:      # clean pass: every text used once more, in insertion order
        yaql.eval(t, 1)
    caps = [c for c in (16, 32, 64, 100, 128, 200, 256, 500, 512, 1000, 1024, 2000, 2048, 4096, 5000) if c < len(ins_order)]
    value = lambda t: int(t.split()[0])
    for cap in caps:
        for policy in ("used", "inserted"):
            k = 1
            while k < 60:
                order = use_order if policy == "used" else ins_order
                ta = order[-cap]                      # what a table of this capacity and policy drops next
                fresh[0] += 1
                tb = "%d + $" % fresh[0]
                ra, rb, reached = held_call(lambda: yaql.eval(ta, 5), lambda: yaql.eval(tb, 7), k, target)
                # bookkeeping of both orders: the held call looked ta up first, then the other call inserted tb
                for o in (use_order, ins_order):
                    o.append(tb)
                use_order.remove(ta)
                use_order.append(ta)
                races += 1
                run.case(("evalrace-bounded", label, cap, policy, k), nontrivial=reached)
                run.count("eval_route_race_bounded")
                if ra != ("ok", value(ta) + 5) or rb != ("ok", value(tb) + 7):
                    run.fail("violation", "overlapping yaql.eval calls after a long history: a call does not return what it returns alone",
                             {"route": "yaql.eval", "history_length": len(ins_order), "held_call": ta, "held_at_line_event": k,
                              "other_call": tb, "table_capacity_tried": cap, "policy_tried": policy,
                              "observed": repr((ra, rb)), "required": repr((("ok", value(ta) + 5), ("ok", value(tb) + 7)))})
                    return
                if not reached:
                    break
                k += 1
    run.note("yaql.eval route: history of %d texts, %d held-call races at line granularity" % (n, races))
