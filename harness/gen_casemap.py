"""Gen/CaseMap.v: the SIMPLE (one code point -> one code point) case mappings of the running
interpreter's str.upper()/str.lower() for the Basic Multilingual Plane, by introspection.

upper_pairs / lower_pairs : (c, d) with d = the single code point chr(c).upper() / .lower(), d <> c
upper_special / lower_special : code points whose mapping is NOT a single code point (full case
    mapping, e.g. U+00DF -> "SS", U+0130 -> "i" + U+0307); these are outside the model (reported uncovered)
lower_context : code points whose lower() depends on the context (final sigma)"""
OUTPUT = "CaseMap.v"
BMP = 0x10000


def tables():
    up, lo, us, ls = [], [], [], []
    for c in range(BMP):
        u, l = chr(c).upper(), chr(c).lower()
        if len(u) != 1:
            us.append(c)
        elif u != chr(c):
            up.append((c, ord(u)))
        if len(l) != 1:
            ls.append(c)
        elif l != chr(c):
            lo.append((c, ord(l)))
    # context sensitivity: a code point whose lower() differs after a cased letter at the end of a word
    ctx = [c for c in range(BMP) if len(chr(c).lower()) == 1 and ("a" + chr(c)).lower() != "a" + chr(c).lower()]
    return up, lo, us, ls, ctx


def pairs(name, ps):
    body = ";\n  ".join("; ".join("(%d, %d)" % p for p in ps[i:i + 8]) for i in range(0, len(ps), 8))
    return "Definition %s : list (Z * Z) := [\n  %s\n]%%Z.\n" % (name, body)


def zs(name, xs):
    if not xs:
        return "Definition %s : list Z := [].\n" % name
    return "Definition %s : list Z := [%s]%%Z.\n" % (name, "; ".join(str(x) for x in xs))


def generate():
    up, lo, us, ls, ctx = tables()
    out = ["(* REGENERATED on every run by harness/gen_casemap.py from the running interpreter. *)",
           "From Coq Require Import List ZArith.", "Import ListNotations.", "",
           pairs("upper_pairs", up), pairs("lower_pairs", lo), zs("upper_special", us), zs("lower_special", ls),
           zs("lower_context", ctx),
           "(* self-check: row counts and two pinned rows *)",
           "Example casemap_selfcheck : (length upper_pairs = %d /\\ length lower_pairs = %d /\\ "
           "In (97, 65)%%Z upper_pairs /\\ In (65, 97)%%Z lower_pairs)%%nat." % (len(up), len(lo)),
           "Proof. split; [reflexivity|]. split; [reflexivity|]. split; [vm_compute; tauto|vm_compute; tauto]. Qed.", ""]
    return "\n".join(out)
