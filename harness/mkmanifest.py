"""Writes /verif/MANIFEST.json from the per-property modules that exist (harness/props/cNN.py
with a Props/CNN.v).  Properties without a check are listed under not_applicable with the reason
'not built yet' until they are."""
import importlib
import json
import os
import sys

here = os.path.dirname(os.path.abspath(__file__))
sys.path.insert(0, here)
VERIF = os.path.dirname(here)

props = [json.loads(l) for l in open(os.path.join(VERIF, "properties.jsonl"))]
checks, na = [], []
READY = set(open(os.path.join(here, "ready.txt")).read().split())
for p in props:
    pid = p["id"]
    modpath = os.path.join(here, "props", pid.lower() + ".py")
    vpath = os.path.join(VERIF, "coq", "Props", pid + ".v")
    if pid in READY and os.path.exists(modpath) and os.path.exists(vpath):
        src = open(modpath).read()
        def const(name, default=""):
            import ast
            for node in ast.parse(src).body:
                if isinstance(node, ast.Assign) and getattr(node.targets[0], "id", None) == name:
                    try:
                        return ast.literal_eval(node.value)
                    except ValueError:
                        return default
            return default
        checks.append({
            "property_id": pid,
            "quick_cmd": "./check %s --tier quick" % pid,
            "thorough_cmd": "./check %s --tier thorough" % pid,
            "evidence_file": "/verif/evidence/%s.json" % pid,
            "replay_cmd_template": "./check %s --replay {path}" % pid,
            "engine": "coq-proof+correspondence",
            "level_claimed": {"category": "proof", "text": const("LEVEL_TEXT", const("EXPLANATION")),
                              "design_ref": "DESIGN.md section 7, %s" % pid},
            "level_note": const("LEVEL_NOTE", "; ".join(const("TRUSTED", []) + const("ASSUMPTIONS", []))),
            "technique": const("TECHNIQUE", "machine-checked proof in Coq 8.16 about an executable Gallina model; model tied to the code by in-Coq (vm_compute) correspondence on generated inputs"),
        })
    else:
        na.append({"property_id": pid, "reason": "check not built yet in this commit (planned: Coq model + proof + correspondence, see DESIGN.md section 7)"})

manifest = {
    "version": 1,
    "setup_cmd": "./setup.sh",
    "hooks": {"guard": "YAQL_VERIF", "enable": "no source hooks are needed: the harness observes yaql through its public API and class-level patching from outside /repo; YAQL_VERIF=1 is exported by ./check for uniformity",
              "baseline_off_cmd": "cd /repo && /venv/bin/python -m pytest -q -p no:cacheprovider --timeout=900",
              "source_commits": [], "add_only": True},
    "engines": [{"name": "coq-proof+correspondence", "path": "/verif/coq", "serves_properties": [c["property_id"] for c in checks],
                 "kind_free_text": "Coq 8.16.1 development (Model/, Lemmas/, Props/, regenerated Gen/) + Python harness that runs the implementation and evaluates the model inside Coq on the same inputs"}],
    "checks": checks,
    "not_applicable": na,
    "notes": "Every check = P (make of Props/<ID>.v against regenerated Gen/*.v + audit + Print Assumptions) + C (model evaluated by vm_compute against the implementation on generated cases) + O (direct property oracle / failing-input search). See DESIGN.md.",
}
json.dump(manifest, open(os.path.join(VERIF, "MANIFEST.json"), "w"), indent=1)
print("checks:", [c["property_id"] for c in checks])
