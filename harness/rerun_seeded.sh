#!/bin/bash
# Re-confirm every seeded change under /verif/seeded and re-run its property's quick check against it.
# One private copy of /verif per property (see run_seeded.py), 4 properties at a time, seeds of one property in sequence.
cd "$(dirname "$0")/.."
ls seeded | sed 's/_.*//' | sort -u | xargs -P 4 -I{} bash -c 'p={}; for id in $(ls seeded | grep "^${p}_" | sort); do /venv/bin/python harness/run_seeded.py $p seeded/$id $id 2>&1 | grep -E "DETECTED|MISSED" | sed "s/^/$id /" | cut -c1-200; done'
