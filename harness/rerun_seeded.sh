#!/bin/bash
# Re-confirm every seeded change under /verif/seeded and re-run its property's quick check against it (3 at a time).
cd "$(dirname "$0")/.."
ls seeded | sort | xargs -P 3 -I{} bash -c 'id={}; p=${id%%_*}; /venv/bin/python harness/run_seeded.py $p seeded/$id $id 2>&1 | grep -E "DETECTED|MISSED" | sed "s/^/$id /" | cut -c1-220'
