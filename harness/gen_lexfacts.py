"""Gen/LexFacts.v: what the lexer of the current tree is made of, read from the
live objects (default engine): the regex source of every function rule
(docstring, normalised the way re.VERBOSE reads it), ESCAPE_SEQUENCE_RE, the
order of alternatives of ply's master regex, the operator string rules, the
operator table used by t_KEYWORD_STRING, the keyword tables, t_ignore, literals,
and three behavioural probes (are the conversions in the token actions guarded;
what does t_error raise)."""
import re
import sys
import types

OUTPUT = "LexFacts.v"


def verbose_normalise(src):
    """Remove what re.VERBOSE ignores: whitespace and #-comments outside
    character classes and not preceded by a backslash."""
    out, i, n, in_class = [], 0, len(src), False
    while i < n:
        c = src[i]
        if c == "\\" and i + 1 < n:
            out.append(src[i:i + 2])
            i += 2
            continue
        if in_class:
            out.append(c)
            if c == "]":
                in_class = False
            i += 1
            continue
        if c == "[":
            in_class = True
            out.append(c)
            i += 1
            # a ']' or '^]' directly after '[' is a literal member
            if i < n and src[i] == "^":
                out.append("^")
                i += 1
            if i < n and src[i] == "]":
                out.append("]")
                i += 1
            continue
        if c in " \t\n\r\f\v":
            i += 1
            continue
        if c == "#":
            while i < n and src[i] != "\n":
                i += 1
            continue
        out.append(c)
        i += 1
    return "".join(out)


def literal_of(pattern, flags):
    """The string a pattern matches if it is a plain sequence of literals, else None."""
    try:
        from re import _parser as sre_parse
    except ImportError:          # pragma: no cover
        import sre_parse
    try:
        tree = sre_parse.parse(pattern, flags)
    except Exception:
        return None
    chars = []
    for op, arg in tree:
        if str(op) != "LITERAL":
            return None
        chars.append(chr(arg))
    return "".join(chars)


def gs(text):
    if not text:
        return "(@nil Z)"
    return "[" + "; ".join(str(ord(c)) for c in text) + "]%Z"


def show(text):
    return "".join(c if 32 <= ord(c) < 127 and c not in '*()"' else "?" for c in text)


def pairs(name, items, comment=True):
    rows = []
    for a, b in items:
        rows.append("  (%s, %s)%s" % (gs(a), gs(b), (" (* %s  %s *)" % (show(a), show(b))) if comment else ""))
    # the comment must come before the separator
    body = ""
    for k, r in enumerate(rows):
        sep = ";" if k + 1 < len(rows) else ""
        if "(*" in r:
            code, com = r.split(" (*", 1)
            body += code + sep + " (*" + com + "\n"
        else:
            body += r + sep + "\n"
    return "Definition %s : list (list Z * list Z) := [\n%s]." % (name, body) if rows else \
        "Definition %s : list (list Z * list Z) := []." % name


class _Tok:
    pass


def probe(fn, value):
    """Class of what a token action raises: 'ok' | 'yaql' | 'foreign'."""
    from yaql.language import exceptions
    t = _Tok()
    t.value, t.lexpos, t.type, t.lineno, t.lexer = value, 0, "X", 1, None
    try:
        fn(t)
    except exceptions.YaqlParsingException:
        return "yaql"
    except BaseException:
        return "foreign"
    return "ok"


def generate():
    import yaql
    from yaql.language import lexer as ylexer
    engine = yaql.YaqlFactory().create()
    lx = engine.lexer
    flags = int(lx.lexreflags)
    master, func_rules, op_rules = [], [], []
    rules_obj = None
    for rx, indexfunc in lx.lexre:
        byidx = {i: n for n, i in rx.groupindex.items()}
        for i, entry in enumerate(indexfunc):
            if not entry:
                continue
            func, ttype = entry
            gname = byidx[i]
            master.append(gname)
            if func is not None:
                func_rules.append((gname, verbose_normalise(func.__doc__ or "")))
                if isinstance(func, types.MethodType) and rules_obj is None:
                    rules_obj = func.__self__
            else:
                op_rules.append((ttype, None))
    if rules_obj is None:
        # t_KEYWORD_STRING is the only bound rule today; if that changes, build the rules like the factory does
        f = yaql.YaqlFactory()
        rules_obj = f._create_lexer(f._build_operator_table(f._name_generator()))
    # op rules might have been listed before rules_obj was found: recompute literals now
    op_rules2 = []
    for ttype, lit in op_rules:
        src = getattr(rules_obj, "t_" + ttype, None)
        l2 = literal_of(src, flags) if isinstance(src, str) else None
        op_rules2.append((ttype, l2 if l2 is not None else "\x00NOT-A-LITERAL:" + repr(src)))
    op_rules = op_rules2
    optable = [(sym, rec[2]) for sym, rec in rules_obj._operators_table.items()]
    keywords = sorted(rules_obj.keywords.items())
    kwvals = []
    for k, v in sorted(rules_obj.keyword_to_val.items()):
        code = 1 if v is True else 0 if v is False else 2 if v is None else 3
        kwvals.append((k, code))
    limit = sys.get_int_max_str_digits() if hasattr(sys, "get_int_max_str_digits") else 0
    g_esc = all(probe(getattr(rules_obj, n), q + "\\xzz" + q) == "yaql" and
                probe(getattr(rules_obj, n), q + "\\N{no such name}" + q) == "yaql" and
                probe(getattr(rules_obj, n), q + "\\U00110000" + q) == "yaql"
                for n, q in (("t_QUOTED_STRING", "'"), ("t_DOUBLE_QUOTED_STRING", '"')))
    g_num = True if limit == 0 else probe(rules_obj.t_NUMBER, "1" * (limit + 1)) == "yaql"
    err = probe(lx.lexerrorf, "#rest")
    out = ["(* GENERATED by harness/gen_lexfacts.py from the live lexer of /repo; do not edit. *)",
           "From Coq Require Import List ZArith Bool.", "Import ListNotations.", "",
           "(* function rules in the order of the live master regex: (group name, regex source as re.VERBOSE reads it) *)",
           pairs("rule_sources", func_rules), "",
           "Definition escape_source : list Z := %s. (* %s *)" % (
               gs(verbose_normalise(ylexer.ESCAPE_SEQUENCE_RE.pattern)), show(verbose_normalise(ylexer.ESCAPE_SEQUENCE_RE.pattern))),
           "Definition escape_flags : Z := %d%%Z." % int(ylexer.ESCAPE_SEQUENCE_RE.flags),
           "Definition lexer_flags : Z := %d%%Z." % flags,
           "Definition flag_verbose_unicode : Z := %d%%Z." % int(re.VERBOSE | re.UNICODE),
           "",
           "(* every alternative of the master regex, in order *)",
           "Definition master_order : list (list Z) := [\n  %s]." % ";\n  ".join(gs(m) for m in master),
           "",
           "(* string rules (operators, indexer, mapping, map) in master order: (token type, the literal it matches) *)",
           pairs("op_rules", op_rules), "",
           "(* the operator table t_KEYWORD_STRING consults: symbol -> token type *)",
           pairs("operator_table", optable), "",
           pairs("keyword_table", keywords), "",
           "(* keyword_to_val: token type -> 0 False | 1 True | 2 None | 3 other *)",
           "Definition keyword_values : list (list Z * Z) := [%s]." % "; ".join("(%s, %d%%Z)" % (gs(k), v) for k, v in kwvals),
           "",
           "Definition token_names : list (list Z) := [\n  %s]." % ";\n  ".join(gs(m) for m in sorted(lx.lextokens_all)),
           "Definition ignore_chars : list Z := %s." % gs(lx.lexignore),
           "Definition literal_chars : list Z := %s." % gs(lx.lexliterals),
           "",
           "(* probes of the token actions *)",
           "Definition int_max_str_digits : Z := %d%%Z." % limit,
           "Definition escape_decoding_guarded : bool := %s." % ("true" if g_esc else "false"),
           "Definition numeral_conversion_guarded : bool := %s." % ("true" if g_num else "false"),
           "Definition t_error_raises_yaql : bool := %s." % ("true" if err == "yaql" else "false"),
           "",
           "(* self-checks of the generator *)",
           "Example master_has_rules : length master_order = (length rule_sources + length op_rules)%nat. Proof. reflexivity. Qed.",
           "Example arrow_is_a_rule : existsb (fun r => if list_eq_dec Z.eq_dec (snd r) [45; 62]%Z then true else false) op_rules = true. Proof. reflexivity. Qed.",
           ""]
    return "\n".join(out)


if __name__ == "__main__":
    sys.stdout.write(generate())
