"""setup: regenerate every Gen file from /repo, then a full `make` of the development."""
import glob
import importlib
import os
import sys
import core

def main():
    with core.BuildLock():
        for path in sorted(glob.glob(os.path.join(core.VERIF, "harness", "gen_*.py"))):
            name = os.path.basename(path)[:-3]
            try:
                gm = importlib.import_module(name)
                core.write_if_changed(os.path.join(core.COQ, "Gen", gm.OUTPUT), gm.generate())
                print("generated Gen/%s" % gm.OUTPUT)
            except Exception as e:   # the per-property check reports this properly
                print("generator %s failed: %r" % (name, e))
        core.refresh_makefile()
        rc, out, cmd = core.make([], timeout=3000)
        print(out[-3000:])
        print("setup make rc=%d" % rc)
    return 0   # a broken proof is reported by the property's own check, not by setup

if __name__ == "__main__":
    sys.exit(main())
