"""Shared driver: P (proof obligations), C (correspondence, model run inside Coq),
O (direct oracle on the implementation), verdict, evidence, replay.

Entry point: /verif/check <ID> [--tier quick|thorough] [--replay FILE]
Runs under /venv/bin/python with PYTHONPATH=/repo (set by /verif/check)."""
import concurrent.futures
import fcntl
import glob
import hashlib
import importlib
import json
import os
import random
import re
import shutil
import subprocess
import sys
import time
import traceback

VERIF = os.path.dirname(os.path.dirname(os.path.abspath(__file__)))
COQ = os.path.join(VERIF, "coq")
REPO = os.environ.get("YAQL_REPO", "/repo")
# evidence and replays of runs against a scratch copy (seeded-change experiments) never overwrite the
# records of /repo itself
_OWN = os.path.realpath(REPO) == "/repo"
EVID = os.path.join(VERIF, "evidence") if _OWN else "/var/tmp/verif_other_repo/evidence"
REPLAYS = os.path.join(VERIF, "replays") if _OWN else "/var/tmp/verif_other_repo/replays"
LOGICAL = "YV"

FORBIDDEN = [
    r"\bAdmitted\b", r"\badmit\b", r"\bAxiom\b", r"\bAxioms\b", r"\bParameter\b",
    r"\bParameters\b", r"\bConjecture\b", r"\bConjectures\b", r"Unset\s+Guard",
    r"bypass_check", r"Admit\s+Obligations", r"type-in-type", r"impredicative-set",
    r"Unset\s+Positivity", r"Unset\s+Universe", r"\bgive_up\b",
]
PRIMITIVE_OK = re.compile(
    r"^(PrimInt63|PrimFloat|Uint63|Coq\.Numbers\.Cyclic\.Int63|Coq\.Floats|int\b|float\b)")

GLOBAL_TRUSTED = [
    "Coq 8.16.1 kernel and its VM (vm_compute in Cases/*.v and in finite-table obligations); no native_compute",
    "no axioms declared by the development (audit grep + Print Assumptions on every property theorem on every run)",
    "harness/gen_*.py generators and harness/gal.py printer (Python -> Gallina)",
    "the correspondence harness: case generators, canonicalisation of observations, seed-derived sampling",
    "CPython 3.12, ply 3.11 and the Python standard library are modelled, not verified",
]


def log(*a):
    print(*a, flush=True)


def strip_comments(src):
    out, depth, i = [], 0, 0
    while i < len(src):
        if src.startswith("(*", i):
            depth += 1
            i += 2
        elif src.startswith("*)", i) and depth:
            depth -= 1
            i += 2
        else:
            if depth == 0:
                out.append(src[i])
            elif src[i] == "\n":
                out.append("\n")
            i += 1
    return "".join(out)


# --------------------------------------------------------------------------
# Coq project plumbing
# --------------------------------------------------------------------------
class BuildLock:
    def __enter__(self):
        self.f = open(os.path.join(COQ, ".build.lock"), "w")
        fcntl.flock(self.f, fcntl.LOCK_EX)
        return self

    def __exit__(self, *a):
        fcntl.flock(self.f, fcntl.LOCK_UN)
        self.f.close()


def project_files():
    files = []
    for d in ("Common", "Gen", "Model", "Lemmas", "Props"):
        files += sorted(glob.glob(os.path.join(COQ, d, "*.v")))
    return [os.path.relpath(f, COQ) for f in files]


def refresh_makefile():
    """(Re)write _CoqProject / Makefile.coq when the file list changed."""
    want = "-Q . %s\n" % LOGICAL + "".join(f + "\n" for f in project_files())
    cp = os.path.join(COQ, "_CoqProject")
    old = open(cp).read() if os.path.exists(cp) else None
    if old != want or not os.path.exists(os.path.join(COQ, "Makefile.coq")):
        with open(cp, "w") as f:
            f.write(want)
        subprocess.run(["coq_makefile", "-f", "_CoqProject", "-o", "Makefile.coq"],
                       cwd=COQ, check=True, capture_output=True)


def write_if_changed(path, text):
    if os.path.exists(path) and open(path).read() == text:
        return False
    os.makedirs(os.path.dirname(path), exist_ok=True)
    with open(path, "w") as f:
        f.write(text)
    return True


def make(targets, timeout=1500, jobs=16):
    cmd = ["make", "-f", "Makefile.coq", "-j%d" % jobs] + list(targets)
    try:
        p = subprocess.run(cmd, cwd=COQ, capture_output=True, text=True, timeout=timeout)
        return p.returncode, p.stdout + p.stderr, " ".join(cmd)
    except subprocess.TimeoutExpired as e:
        return 124, "TIMEOUT after %ss\n%s" % (timeout, (e.stdout or b"").decode("utf8", "replace")
                                               if isinstance(e.stdout, bytes) else str(e.stdout)), " ".join(cmd)


def cone(vfile, seen=None):
    """Transitive closure of `From YV Require ... X.Y` starting at a .v file (relative to COQ)."""
    seen = seen if seen is not None else []
    if vfile in seen:
        return seen
    path = os.path.join(COQ, vfile)
    if not os.path.exists(path):
        return seen
    seen.append(vfile)
    src = strip_comments(open(path).read())
    for m in re.finditer(r"From\s+%s\s+Require\s+(?:Import\s+|Export\s+)?((?:\w+(?:\.\w+)*\s+)*\w+(?:\.\w+)*)\.(?=\s)" % LOGICAL, src):
        for mod in m.group(1).split():
            cone(mod.replace(".", "/") + ".v", seen)
    return seen


STMT_RE = re.compile(r"^\s*(?:Local\s+|Global\s+|#\[[^\]]*\]\s*)?(Theorem|Lemma|Example|Corollary|Fact|Proposition|Remark)\s+([\w']+)", re.M)


def count_obligations(files):
    names = []
    for f in files:
        src = strip_comments(open(os.path.join(COQ, f)).read())
        names += ["%s:%s" % (f, m.group(2)) for m in STMT_RE.finditer(src)]
    return names


def audit(files):
    """grep audit over the given .v files; returns list of offending 'file:line: text'."""
    bad = []
    for f in files:
        src = strip_comments(open(os.path.join(COQ, f)).read())
        depth = 0
        for ln, line in enumerate(src.split("\n"), 1):
            if re.match(r"\s*Section\s+\w+", line):
                depth += 1
            if re.match(r"\s*End\s+\w+", line) and depth:
                depth -= 1
            for pat in FORBIDDEN:
                if re.search(pat, line):
                    bad.append("%s:%d: %s" % (f, ln, line.strip()))
            if depth == 0 and re.match(r"\s*(Variable|Variables|Hypothesis|Hypotheses|Context)\b", line):
                bad.append("%s:%d: %s (outside a Section)" % (f, ln, line.strip()))
    return bad


def coqc(path, timeout=600):
    cmd = ["coqc", "-Q", ".", LOGICAL, os.path.relpath(path, COQ)]
    try:
        p = subprocess.run(cmd, cwd=COQ, capture_output=True, text=True, timeout=timeout)
        return p.returncode, p.stdout, p.stderr
    except subprocess.TimeoutExpired:
        return 124, "", "TIMEOUT"


def print_assumptions(run, props_file, theorems):
    """Returns {theorem: [axiom names]} by compiling a scratch file."""
    mod = props_file[:-2].replace("/", ".")
    lines = ["From %s Require Import %s." % (LOGICAL, mod)]
    for t in theorems:
        lines.append('Goal True. idtac "@@THM %s". exact I. Qed.' % t)
        lines.append("Print Assumptions %s." % t)
    path = os.path.join(run.scratch, "assumptions.v")
    with open(path, "w") as f:
        f.write("\n".join(lines) + "\n")
    rc, out, err = coqc(path)
    if rc != 0:
        return None, out + err
    res, cur = {}, None
    for line in out.split("\n"):
        m = re.match(r"@@THM (\S+)", line)
        if m:
            cur = m.group(1)
            res[cur] = []
            continue
        if cur is None:
            continue
        m = re.match(r"^([\w.']+)\s*:", line)
        if m and not line.startswith(" "):
            res[cur].append(m.group(1))
    return res, out


# --------------------------------------------------------------------------
# Run object handed to the property modules
# --------------------------------------------------------------------------
class Failure:
    """kind: 'violation' (the implementation fails the property on a concrete input),
             'mismatch'  (model and implementation disagree; no property failure shown yet),
             'proof'     (an obligation no longer checks)."""

    def __init__(self, kind, what, data=None, known=None):
        self.kind, self.what, self.data, self.known = kind, what, data or {}, known

    def to_json(self):
        return {"kind": self.kind, "what": self.what, "known": self.known, "data": self.data}


class Run:
    def __init__(self, pid, tier, seed):
        self.pid, self.tier, self.seed = pid, tier, seed
        self.rng = random.Random("%s/%d" % (pid, seed))
        self.t0 = time.time()
        self.failures = []
        self.cov = {"evaluations": 0, "distinct": set(), "samples": [], "histogram": {},
                    "skipped": 0, "shards": 0, "uncovered": []}
        # outside the -Q tree: coqdep walks /verif/coq and must not see directories that another
        # run removes concurrently
        self.scratch = os.path.join(VERIF, "scratch", "%s_%d" % (pid, os.getpid()))
        os.makedirs(self.scratch, exist_ok=True)
        self.notes = []
        self.proof = {"obligations": [], "ok": False, "cmd": "", "assumptions": {}, "log": ""}
        self._nfile = 0

    # ---- bookkeeping ------------------------------------------------------
    @property
    def quick(self):
        return self.tier == "quick"

    def n(self, quick, thorough):
        return quick if self.quick else thorough

    def count(self, key, k=1):
        h = self.cov["histogram"]
        h[key] = h.get(key, 0) + k

    def case(self, fingerprint, nontrivial=True):
        self.cov["evaluations"] += 1
        if nontrivial:
            self.cov["distinct"].add(hashlib.sha1(repr(fingerprint).encode("utf8", "backslashreplace")).digest()[:8])

    def sample(self, x, limit=6):
        if len(self.cov["samples"]) < limit:
            self.cov["samples"].append(x)

    def fail(self, kind, what, data=None, known=None):
        f = Failure(kind, what, data, known)
        self.failures.append(f)
        return f

    def note(self, s):
        self.notes.append(s)

    # ---- model evaluation inside Coq -----------------------------------------
    def coq_mismatches(self, header, case_ty, ok_fn, cases, shard=300, timeout=900):
        """cases: list of Gallina terms of type case_ty.  Returns the indices on
        which `ok_fn case` evaluates to false (vm_compute, inside Coq)."""
        jobs = []
        for k in range(0, len(cases), shard):
            self._nfile += 1
            path = os.path.join(self.scratch, "cases_%d.v" % self._nfile)
            with open(path, "w") as f:
                f.write(header + "\nFrom %s Require Import Common.Corr.\nFrom Coq Require Import List ZArith.\nImport ListNotations.\n" % LOGICAL)
                f.write("Definition cases : list (%s) := [\n" % case_ty)
                f.write(";\n".join(cases[k:k + shard]))
                f.write("\n].\nEval vm_compute in (mismatches (%s) cases).\n" % ok_fn)
            jobs.append((k, path))
        self.cov["shards"] += len(jobs)
        bad = []

        def work(job):
            k, path = job
            rc, out, err = coqc(path, timeout)
            if rc != 0:
                return k, None, (out + err)[-3000:]
            m = re.search(r"=\s*\[(.*?)\]\s*:\s*list nat", out, re.S)
            if not m:
                return k, None, out[-3000:]
            idx = [int(t) for t in re.findall(r"\d+", m.group(1))]
            return k, idx, ""

        with concurrent.futures.ThreadPoolExecutor(max_workers=16) as ex:
            for k, idx, err in ex.map(work, jobs):
                if idx is None:
                    raise CoqEvalError("shard starting at %d failed to evaluate:\n%s" % (k, err))
                bad += [k + i for i in idx]
        return sorted(bad)

    def coq_eval(self, header, expr, timeout=300):
        """Evaluate one expression with vm_compute and return Coq's printed text."""
        self._nfile += 1
        path = os.path.join(self.scratch, "eval_%d.v" % self._nfile)
        with open(path, "w") as f:
            f.write(header + "\nFrom %s Require Import Common.Corr.\nFrom Coq Require Import List ZArith.\nImport ListNotations.\n" % LOGICAL)
            f.write("Set Printing Width 100000. Set Printing Depth 100000.\nEval vm_compute in (%s).\n" % expr)
        rc, out, err = coqc(path, timeout)
        if rc != 0:
            raise CoqEvalError((out + err)[-3000:])
        return out.strip()

    def cleanup(self):
        shutil.rmtree(self.scratch, ignore_errors=True)


class CoqEvalError(Exception):
    pass


# --------------------------------------------------------------------------
# P: proof obligations
# --------------------------------------------------------------------------
def build_proofs(run, mod):
    props_file = "Props/%s.v" % run.pid
    with BuildLock():
        gen_err = None
        try:
            for g in getattr(mod, "GEN", []):
                gm = importlib.import_module("gen_" + g)
                text = gm.generate()
                write_if_changed(os.path.join(COQ, "Gen", gm.OUTPUT), text)
        except Exception:
            gen_err = traceback.format_exc()
        refresh_makefile()
        files = cone(props_file)
        run.proof["files"] = files
        run.proof["obligations"] = count_obligations(files)
        if gen_err:
            run.proof["log"] = gen_err
            run.fail("proof", "generator failed on the current tree (facts could not be extracted)",
                     {"trace": gen_err[-2000:]})
            return
        rc, out, cmd = make([props_file + "o"])
        for _ in range(3):
            if rc != 0 and ("Sys_error" in out or ".Makefile.coq.d" in out or "Anomaly" in out):
                time.sleep(1.0)       # a concurrent run touched the tree while coqdep scanned it
                rc, out, cmd = make([props_file + "o"])
        run.proof["cmd"] = "cd /verif/coq && " + cmd
        run.proof["log"] = out[-4000:]
    if rc != 0:
        m = re.search(r'File "\./([^"]+)", line (\d+)', out)
        where = None
        if m:
            where = {"file": m.group(1), "line": int(m.group(2)),
                     "statement": enclosing_statement(m.group(1), int(m.group(2)))}
        run.fail("proof", "proof obligation no longer checks", {"where": where, "log": out[-2500:]})
        return
    bad = audit(files)
    if bad:
        run.fail("proof", "audit: forbidden declaration in the development", {"lines": bad})
        return
    src = strip_comments(open(os.path.join(COQ, props_file)).read())
    theorems = [m.group(2) for m in STMT_RE.finditer(src) if m.group(1) == "Theorem"]
    run.proof["theorems"] = theorems
    ass, raw = print_assumptions(run, props_file, theorems)
    if ass is None:
        run.fail("proof", "Print Assumptions could not be run", {"log": raw[-2000:]})
        return
    allowed = set(getattr(mod, "ALLOWED_AXIOMS", []))
    run.proof["assumptions"] = ass
    for t, axs in ass.items():
        extra = [a for a in axs if a not in allowed and not PRIMITIVE_OK.match(a)]
        if extra:
            run.fail("proof", "theorem %s depends on undeclared assumptions %s" % (t, extra))
            return
    if run.tier == "thorough" and not hasattr(mod, "coqchk"):
        coqchk(run)
    run.proof["ok"] = True


def coqchk(run):
    """Independent re-check of the property's .vo and everything it depends on; axioms of the whole context."""
    cmd = ["coqchk", "-o", "-silent", "-Q", ".", LOGICAL, "%s.Props.%s" % (LOGICAL, run.pid)]
    try:
        p = subprocess.run(cmd, cwd=COQ, capture_output=True, text=True, timeout=1800)
        out = p.stdout + p.stderr
    except subprocess.TimeoutExpired:
        run.note("coqchk: timed out after 1800 s")
        return
    m = re.search(r"\* Axioms:(.*?)\n\s*\n\* Constants/Inductives relying on type-in-type:(.*?)\n\s*\n"
                  r"\* Constants/Inductives relying on unsafe \(co\)fixpoints:(.*?)\n\s*\n"
                  r"\* Inductives whose positivity is assumed:(.*?)\n", out, re.S)
    if p.returncode != 0 or not m:
        run.fail("proof", "coqchk rejected the compiled development", {"log": out[-2000:]})
        return
    axioms = " ".join(m.group(1).split())
    run.proof["coqchk"] = {"cmd": "cd /verif/coq && " + " ".join(cmd), "axioms": axioms,
                           "type_in_type": " ".join(m.group(2).split()), "unsafe_fixpoints": " ".join(m.group(3).split()),
                           "assumed_positivity": " ".join(m.group(4).split())}
    run.note("coqchk -o: Axioms: %s; type-in-type: %s; unsafe fixpoints: %s; assumed positivity: %s" % (
        axioms, " ".join(m.group(2).split()), " ".join(m.group(3).split()), " ".join(m.group(4).split())))
    if any(" ".join(g.split()) != "<none>" for g in (m.group(2), m.group(3), m.group(4))):
        run.fail("proof", "coqchk reports switched-off kernel checks", run.proof["coqchk"])


def enclosing_statement(vfile, line):
    try:
        lines = open(os.path.join(COQ, vfile)).read().split("\n")
    except OSError:
        return None
    for i in range(min(line, len(lines)) - 1, -1, -1):
        m = STMT_RE.match(lines[i])
        if m:
            return m.group(2)
    return None


# --------------------------------------------------------------------------
# verdict, evidence, replay
# --------------------------------------------------------------------------
def load_known():
    out = []
    paths = [os.path.join(VERIF, "known_findings.json")] + sorted(glob.glob(os.path.join(VERIF, "known_findings.d", "*.json")))
    for path in paths:
        if os.path.exists(path):
            out += json.load(open(path)).get("findings", [])
    return out


def write_replay(run, failure, idx):
    os.makedirs(os.path.join(REPLAYS, run.pid), exist_ok=True)
    path = os.path.join(REPLAYS, run.pid, "%s_%s_%d_%d.json" % (run.pid, run.tier, run.seed, idx))
    with open(path, "w") as f:
        json.dump({"property": run.pid, "seed": run.seed, "tier": run.tier, **failure.to_json()}, f, indent=1, default=repr)
    return path


def write_evidence(run, mod, nviol):
    os.makedirs(EVID, exist_ok=True)
    obl = run.proof["obligations"]
    cov = {
        "obligations": len(obl),
        "discharged": len(obl) if run.proof["ok"] else 0,
        "checker_cmd": run.proof["cmd"] or "cd /verif/coq && make -f Makefile.coq Props/%s.vo" % run.pid,
        "trusted_base": GLOBAL_TRUSTED + list(getattr(mod, "TRUSTED", [])) + [
            "Print Assumptions %s: %s" % (t, ", ".join(a) if a else "Closed under the global context")
            for t, a in sorted(run.proof.get("assumptions", {}).items())],
        "property_theorems": run.proof.get("theorems", []),
        "files_in_cone": run.proof.get("files", []),
        "evaluations": run.cov["evaluations"],
        "distinct_nontrivial": len(run.cov["distinct"]),
        "rule": getattr(mod, "RULE", ""),
        "samples": run.cov["samples"] or ["(no correspondence cases in this run)"],
        "input_distribution": run.cov["histogram"],
        "cases_skipped_model_unsupported": run.cov["skipped"],
        "coq_case_shards": run.cov["shards"],
        "uncovered": run.cov["uncovered"],
        "notes": run.notes,
        "explanation": getattr(mod, "EXPLANATION", ""),
    }
    ev = {
        "property_id": run.pid, "tier": run.tier, "seed": run.seed, "level": "proof",
        "coverage": cov,
        "assumptions": list(getattr(mod, "ASSUMPTIONS", [])),
        "wall_s": round(time.time() - run.t0, 2),
        "violations": nviol,
    }
    with open(os.path.join(EVID, "%s.json" % run.pid), "w") as f:
        json.dump(ev, f, indent=1, default=repr)


def classify_known(run, mod):
    """Let the property module label failures that fall into a listed known finding."""
    known = [k for k in load_known() if k.get("property") == run.pid and k.get("status") == "open"]
    cls = getattr(mod, "classify", None)
    for f in run.failures:
        if f.kind == "violation" and cls and known:
            f.known = cls(f, known)


def verdict(run, mod):
    classify_known(run, mod)
    viol = [f for f in run.failures if f.kind == "violation" and not f.known]
    knownf = [f for f in run.failures if f.kind == "violation" and f.known]
    broken = [f for f in run.failures if f.kind in ("proof", "mismatch")]
    seen = set()
    for f in knownf:
        if f.known not in seen:
            seen.add(f.known)
            log("KNOWN-FINDING: property=%s %s (%s)" % (run.pid, f.known, f.what))
    nviol = 0
    if viol:
        # one VIOLATION line per distinct 'what'
        done = set()
        for i, f in enumerate(viol):
            if f.what in done:
                continue
            done.add(f.what)
            path = write_replay(run, f, i)
            log("VIOLATION property=%s replay=%s" % (run.pid, path))
            log("  what: %s" % f.what)
            nviol += 1
            if nviol >= 5:
                break
    elif broken:
        f = broken[0]
        f.data["all_broken"] = [b.what for b in broken]
        path = write_replay(run, f, 0)
        log("  broken: %s" % f.what)
        if f.data.get("where"):
            log("  where: %s" % f.data["where"])
        log("VIOLATION property=%s replay=%s no-failing-input-found" % (run.pid, path))
        nviol = 1
    write_evidence(run, mod, nviol)
    return 1 if nviol else 0


def main(argv):
    import argparse
    ap = argparse.ArgumentParser()
    ap.add_argument("pid")
    ap.add_argument("--tier", default=os.environ.get("VERIF_TIER", "quick"), choices=["quick", "thorough"])
    ap.add_argument("--replay")
    a = ap.parse_args(argv)
    seed = int(os.environ.get("VERIF_SEED", "0") or 0)
    pid = a.pid.upper()
    mod = importlib.import_module("props.%s" % pid.lower())
    run = Run(pid, a.tier, seed)
    try:
        if a.replay:
            data = json.load(open(a.replay))
            ok = mod.replay(run, data)
            if ok:
                log("replay: the recorded input no longer fails")
                return 0
            log("VIOLATION property=%s replay=%s" % (pid, a.replay))
            return 1
        log("[%s] P: regenerating facts and checking proofs" % pid)
        build_proofs(run, mod)
        log("[%s] P: %s (%d statements in cone) %.1fs" % (pid, "ok" if run.proof["ok"] else "BROKEN",
                                                        len(run.proof["obligations"]), time.time() - run.t0))
        broken_p = not run.proof["ok"]
        try:
            log("[%s] C: correspondence" % pid)
            mod.correspondence(run)
        except CoqEvalError as e:
            run.fail("mismatch", "the model could not be evaluated inside Coq", {"log": str(e)[-2500:]})
        log("[%s] C: %d cases, %d failures so far, %.1fs" % (pid, run.cov["evaluations"], len(run.failures), time.time() - run.t0))
        if hasattr(mod, "oracle"):
            log("[%s] O: direct oracle / failing-input search" % pid)
            mod.oracle(run, deep=broken_p or any(f.kind == "mismatch" for f in run.failures))
            log("[%s] O: done, %d failures, %.1fs" % (pid, len(run.failures), time.time() - run.t0))
        rc = verdict(run, mod)
        log("[%s] %s in %.1fs" % (pid, "PASS" if rc == 0 else "FAIL", time.time() - run.t0))
        return rc
    finally:
        run.cleanup()


if __name__ == "__main__":
    sys.exit(main(sys.argv[1:]))
