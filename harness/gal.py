"""Python value -> Gallina term printer (trusted: a bug here makes the model run
on a different input than the implementation did).  Everything is printed with
explicit scopes so that a term means the same in any file."""


def z(n):
    n = int(n)
    return "(%d)%%Z" % n if n < 0 else "%d%%Z" % n


def nat(n):
    n = int(n)
    assert 0 <= n < 5000, "nat literal too large: %r" % n
    return "%d%%nat" % n


def boolean(b):
    return "true" if b else "false"


def lst(items):
    items = list(items)
    if not items:
        return "[]"
    return "[" + "; ".join(items) + "]"


def s(text):
    """Python str -> list Z of code points."""
    if not text:
        return "(@nil Z)"
    return "[" + "; ".join(str(ord(c)) for c in text) + "]%Z"


def opt(x, f=lambda t: t):
    return "None" if x is None else "(Some %s)" % f(x)


def pair(a, b):
    return "(%s, %s)" % (a, b)


def app(ctor, *args):
    if not args:
        return ctor
    return "(" + ctor + " " + " ".join(args) + ")"


def zlist(xs):
    xs = list(xs)
    if not xs:
        return "(@nil Z)"
    return "[" + "; ".join(str(int(x)) if int(x) >= 0 else "(%d)" % int(x) for x in xs) + "]%Z"


def natlist(xs):
    xs = list(xs)
    if not xs:
        return "(@nil nat)"
    return "[" + "; ".join(str(int(x)) for x in xs) + "]%nat"
