"""Shared pieces of C05 / C06 / C12: the class lattice, random overload families and calls,
running them on the REAL runner (ordered enumeration through a Context subclass, probe
expressions that log evaluation), canonical observations, Gallina printers for
Model/Resolution.v, and an independent Python implementation of the documented rules.

A family / call is plain JSON data (so that replays and the corpus are self-contained):
  family = {"chain": [{"excl": bool, "funs": [fun, ...]}, ...]}      chain[0] = the context the call is made on;
                                                                      the order of "funs" IS the enumeration order
  a layer's "excl" says that the name is marked exclusive in that context; an overload with "xreg": true is
  registered with exclusive=True (no overload carries the key -> all are); overloads are REGISTERED in the
  order of "funs" as well, so permuting "funs" permutes enumeration and registration order together
  a parameter is [name, kind, default] or [name, kind, default, alias] (explicit alias=...)
  a family may carry "fname": the python-style name of the function (default "f"); the contexts follow the CamelCase
  convention, the overloads are registered under the converted name, and a call may go through the converted name
  (call["by"] absent) or through the python-style name with use_convention=True (call["by"] = "python")
  a layer may be a MultiContext / LinkedContext: "shape": "plain"|"multi"|"linked"|"linked-multi" and
  "members": [[fid, ...], ...] (which member context holds which overloads, in member order)
  a kind may also be ["X", combinator class name, [member tags], nullable]: a smart-type COMBINATOR discovered in yaqltypes
  (AnyOf, Chain, NotOfType, ...) over PythonType members; within one family equal kinds are ONE shared type instance
  a fun may carry "payload_of": fid - it is another parameter specification of the SAME python callable as that overload
  (fd.clone() + set_parameter(..., overwrite=True)), the way hosts specialise one implementation
  a fun may carry "decl": [name, ...] - the order in which its parameters are declared (= order of its parameter table)
  a fun may carry "history": [op, ...]: what else happened to the decorated python callable / to definitions
  derived from it through the public FunctionDefinition API before ("pre_*") and after ("post_*") the
  definition under test was derived - none of it may change how that definition resolves
  fun    = {"fid": int, "pos": [[name, kind, default], ...], "star": [name, kind]|None,
            "kwonly": [[name, kind, default], ...], "starstar": [name, kind]|None,
            "kind": "function"|"method"|"extension", "nokw": bool}
  kind   = ["T", tag, nullable] | ["L"] | ["E"] | ["H"] (hidden, by name engine/context) | ["U"] (undeclared)
           | ["C"] (yaqltypes.Constant(False)) | ["M"] (yaqltypes.MappingRule()) | ["A", [tags], nullable] (yaqltypes.AnyOf)
  default= None | value ;   value = "null" | ["obj", tag] | ["int", n] | "marker"
  call   = {"recv": value|None, "args": [arg, ...], "kwargs": [[name, value], ...]}
  arg    = ["const", v] | ["expr", id, v] | ["raw", v] | ["skip"] | ["mapc", k, v] | ["mape", k, id, v]
"""
import itertools

import gal
import yaql
from yaql.language import contexts, conventions, exceptions, expressions, specs, utils, yaqltypes


# ---- the lattice: tag 0 = object, then a 6-class lattice with a diamond ----------
class X(object):
    pass


class A(X):
    pass


class B(X):
    pass


class D(A, B):
    pass


class E(D):
    pass


class F(object):
    pass


class G(A):
    pass


class H(G, B):
    pass


CLASSES = [object, X, A, B, D, E, F, G, H]
CLASS_NAMES = ["object", "X", "A", "B", "D", "E", "F", "G", "H"]
NCLS = len(CLASSES)
INST = {i: CLASSES[i]() for i in range(1, NCLS)}
MAPRULE_CODE = -1

NAMES = ["a", "b", "c", "x_y", "val_", "k", "m", "engine", "context", "rest", "kw", "xY", "val", "zz",
         "max_count", "maxCount", "opt_", "opt", "lim", "limit"]
_codes = {n: i + 1 for i, n in enumerate(NAMES)}


def ncode(name):
    if name not in _codes:
        _codes[name] = len(_codes) + 1
    return _codes[name]


def camel(name):
    """independent implementation of the naming convention for parameter names"""
    name = name.rstrip("_")
    out, i = [], 0
    while i < len(name):
        ch = name[i]
        if ch == "_" and i > 0 and i + 1 < len(name) and (name[i + 1].isalnum() or name[i + 1] == "_"):
            out.append(name[i + 1].upper())
            i += 2
        else:
            out.append(ch)
            i += 1
    return "".join(out)


def palias(p):
    """yaql-side name of a JSON parameter: the explicit alias or the convention applied to the python name"""
    return p[3] if len(p) > 3 and p[3] else camel(p[0])


# ---- host objects with permissive / hostile comparison and truthiness protocols ----------------------
def _raising(*a, **k):
    raise RuntimeError("hostile protocol method called")


HOSTILE_PROTOCOLS = {
    1: {"__eq__": lambda s, o: True, "__ne__": lambda s, o: False, "__hash__": lambda s: 1},      # like unittest.mock.ANY
    2: {"__eq__": _raising, "__ne__": _raising, "__hash__": lambda s: 2},
    3: {"__bool__": lambda s: False, "__len__": lambda s: 0},
    4: {"__bool__": _raising, "__eq__": lambda s, o: False, "__ne__": lambda s, o: False, "__hash__": lambda s: 1},
    5: {"__eq__": lambda s, o: NotImplemented, "__ne__": lambda s, o: False, "__hash__": lambda s: 5, "__len__": _raising},
}
# one instance per (protocol, lattice class): an instance of a subclass that adds nothing but the protocol methods,
# so for every type check it IS a value of the lattice class
HOSTILE = {k: {c: type("%s_p%d" % (CLASS_NAMES[c], k), (CLASSES[c],), dict(m))() for c in range(1, NCLS)}
           for k, m in HOSTILE_PROTOCOLS.items()}
_hostile_mode = [0]


# ---- values -------------------------------------------------------------------------
def py_value(v):
    if v == "null":
        return None
    if v == "marker":
        return utils.NO_VALUE
    if v[0] == "obj":
        if _hostile_mode[0]:
            return HOSTILE[_hostile_mode[0]][v[1]]
        return INST[v[1]]
    if v[0] == "int":
        return v[1]
    raise ValueError(v)


def value_code(o):
    """python object -> JSON value, or None if it is not a plain value"""
    if o is None:
        return "null"
    if o is utils.NO_VALUE or o is specs.NO_DEFAULT:
        return "marker"
    for c, inst in INST.items():
        if o is inst:
            return ["obj", c]
    for k in HOSTILE:
        for c, inst in HOSTILE[k].items():
            if o is inst:
                return ["obj", c]
    if isinstance(o, bool):
        return None
    if isinstance(o, int):
        return ["int", o]
    if isinstance(o, utils.MappingRule):
        return ["int", MAPRULE_CODE]
    return None


def value_term(v):
    if v == "null":
        return "VNull"
    if v == "marker":
        return "VMarker"
    if v[0] == "obj":
        return "(VObj %d)" % v[1]
    return "(VOther %s)" % gal.z(v[1])


def arg_term(a):
    k = a[0]
    if k == "const":
        return "(AConst %s)" % value_term(a[1])
    if k == "expr":
        return "(AExpr %s %s)" % (gal.z(a[1]), value_term(a[2]))
    if k == "raw":
        return "(ARaw %s)" % value_term(a[1])
    if k == "skip":
        return "ANoValue"
    if k == "mapc":
        return "(AMapC %s %s)" % (gal.z(ncode(a[1])), value_term(a[2]))
    if k == "mape":
        return "(AMapE %s %s %s)" % (gal.z(ncode(a[1])), gal.z(a[2]), value_term(a[3]))
    raise ValueError(a)


# ---- probe expressions -----------------------------------------------------------------
class Probe(expressions.Expression):
    def __init__(self, pid, value, log):
        self.pid, self.value, self.log = pid, value, log
        self.uses_receiver = False

    def __call__(self, receiver, context, engine):
        self.log.append(self.pid)
        return self.value


def build_arg(a, log, table):
    """JSON arg -> the python object handed to the runner; records id(obj) -> JSON arg"""
    k = a[0]
    if k == "const":
        o = expressions.Constant(py_value(a[1]))
    elif k == "expr":
        o = Probe(a[1], py_value(a[2]), log)
    elif k == "raw":
        return py_value(a[1])
    elif k == "skip":
        return utils.NO_VALUE
    elif k == "mapc":
        o = expressions.MappingRuleExpression(expressions.KeywordConstant(a[1]), expressions.Constant(py_value(a[2])))
        table[id(o.destination)] = ["const", a[2]]
    elif k == "mape":
        o = expressions.MappingRuleExpression(expressions.KeywordConstant(a[1]), Probe(a[2], py_value(a[3]), log))
        table[id(o.destination)] = ["expr", a[2], a[3]]
    else:
        raise ValueError(a)
    table[id(o)] = a
    return o


# ---- functions ----------------------------------------------------------------------------
def combinators():
    """the smart-type combinators yaqltypes offers (discovered, not listed): aggregations and NotOfType-like wrappers"""
    out = []
    for name, c in sorted(vars(yaqltypes).items()):
        if isinstance(c, type) and issubclass(c, yaqltypes.SmartType) and not getattr(c, "__abstractmethods__", None):
            if issubclass(c, yaqltypes.SmartTypeAggregation) or "smart_type" in getattr(c, "__slots__", ()):
                out.append(name)
    return out


def make_combinator(name, tags, nullable):
    cls = getattr(yaqltypes, name)
    if issubclass(cls, yaqltypes.SmartTypeAggregation):
        return cls(*[CLASSES[t] for t in tags], nullable=nullable)
    return cls(CLASSES[tags[0]], nullable=nullable)


def kind_type(kind, pool=None):
    """pool: {kind: instance} - the type constants of one family, shared by every parameter that names the kind"""
    if pool is not None and kind[0] in ("A", "X", "T"):
        key = repr(kind)
        if key not in pool:
            pool[key] = kind_type(kind)
        return pool[key]
    k = kind[0]
    if k == "X":
        return make_combinator(kind[1], kind[2], kind[3])
    if k == "T":
        return yaqltypes.PythonType(CLASSES[kind[1]], kind[2])
    if k == "L":
        return yaqltypes.Lambda()
    if k == "E":
        return yaqltypes.YaqlExpression()
    if k == "A":
        return yaqltypes.AnyOf(*[CLASSES[t] for t in kind[1]], nullable=kind[2])
    if k == "C":
        return yaqltypes.Constant(False)
    if k == "M":
        return yaqltypes.MappingRule()
    return None


_glob = {"INST": INST}


_fname = ["f"]          # python-style name of the family being built; definitions are registered under its converted form


HISTORY_OPS = ["pre_python", "pre_none", "pre_strip", "pre_insert", "post_strip", "post_insert", "post_python", "post_clone"]


def _derive(fn, convention):
    return specs.get_function_definition(fn, name=camel(_fname[0]), convention=convention)


def _history_op(op, fn, fd, made):
    """one use of the public API on the same decorated callable (or on a definition derived from it)"""
    camel_c = conventions.CamelCaseConvention()
    kind = op.split("_", 1)[1]
    base = fd if op.startswith("post") else None
    if kind == "python":
        made.append(_derive(fn, conventions.PythonConvention()))
    elif kind == "none":
        made.append(_derive(fn, None))
    elif kind == "strip":
        d = base if base is not None else _derive(fn, camel_c)
        made.append(d)
        made.append(d.strip_hidden_parameters())
    elif kind == "insert":
        d = (base if base is not None else _derive(fn, camel_c)).clone()
        d.insert_parameter(specs.ParameterDefinition("ins_", yaqltypes.PythonType(object, True), position=0, default=None))
        made.append(d)
    elif kind == "clone":
        d = base.clone()
        for q in d.parameters.values():
            q.alias = "moved"
            if q.position is not None:
                q.position += 3
        made.append(d)
    else:
        raise ValueError(op)


def make_callable(fun, pool=None):
    """exec() a python function with the requested signature and decorate it; the payload returns what it received"""
    parts, names = [], []
    for name, kind, default in [q[:3] for q in fun["pos"]]:
        parts.append(name if default is None else "%s=%s" % (name, _default_src(default)))
        names.append(name)
    if fun["star"]:
        parts.append("*" + fun["star"][0])
    elif fun["kwonly"]:
        parts.append("*")
    for name, kind, default in [q[:3] for q in fun["kwonly"]]:
        parts.append(name if default is None else "%s=%s" % (name, _default_src(default)))
    if fun["starstar"]:
        parts.append("**" + fun["starstar"][0])
    src = "def payload(%s):\n    return (%d, (%s), %s, (%s), %s)\n" % (
        ", ".join(parts), fun["fid"],
        "".join(n + ", " for n in names),
        fun["star"][0] if fun["star"] else "()",
        "".join("(%r, %s), " % (q[0], q[0]) for q in fun["kwonly"]),
        fun["starstar"][0] if fun["starstar"] else "{}")
    env = dict(_glob)
    exec(src, env)
    fn = env["payload"]
    for name, kind, alias in _declarations(fun):
        t = kind_type(kind, pool)
        if t is not None or (alias and kind != ["H"]):
            specs.parameter(name, t, alias=alias)(fn)
    if fun["kind"] == "method":
        specs.method(fn)
    elif fun["kind"] == "extension":
        specs.extension_method(fn)
    if fun["nokw"]:
        specs.no_kwargs(fn)
    return fn


def _declarations(fun):
    decl = [(q[0], q[1], q[3] if len(q) > 3 else None) for q in fun["pos"] + fun["kwonly"]]
    if fun["star"]:
        decl.append((fun["star"][0], fun["star"][1], None))
    if fun["starstar"]:
        decl.append((fun["starstar"][0], fun["starstar"][1], None))
    if fun.get("decl"):            # order in which the @specs.parameter decorators are applied = order of the parameter table
        rank = {n: i for i, n in enumerate(fun["decl"])}
        decl.sort(key=lambda d: rank.get(d[0], len(rank)))
    return decl


def respecify(fn, fun, pool=None):
    """another parameter specification of the same python callable: clone + set_parameter(overwrite=True)"""
    fd = _derive(fn, conventions.CamelCaseConvention()).clone()
    for name, kind, alias in _declarations(fun):
        if kind == ["H"]:
            continue
        fd.set_parameter(name, kind_type(kind, pool), alias=alias or camel(name), overwrite=True)
    fd.is_function = fun["kind"] != "method"
    fd.is_method = fun["kind"] != "function"
    fd.no_kwargs = fun["nokw"]
    return fd


def make_function(fun, census=None, history=True, shared=None, pool=None):
    """-> the FunctionDefinition of one overload.  census: list collecting every FunctionDefinition that came into
    being (identity census); shared: {fid: python callable} of the family (for "payload_of"); pool: shared type instances"""
    if fun.get("payload_of") is not None and shared is not None and fun["payload_of"] in shared:
        fd = respecify(shared[fun["payload_of"]], fun, pool)
        if census is not None:
            census.append(fd)
        return fd
    fn = make_callable(fun, pool)
    if shared is not None:
        shared[fun["fid"]] = fn
    ops = fun.get("history", []) if history else []
    made = []
    for op in ops:
        if op.startswith("pre"):
            _history_op(op, fn, None, made)
    fd = _derive(fn, conventions.CamelCaseConvention())
    for op in ops:
        if op.startswith("post"):
            _history_op(op, fn, fd, made)
    if census is not None:
        census.append(fd)
        census.extend(made)
        if hasattr(fn, "__yaql_function__"):
            census.append(fn.__yaql_function__)
    return fd


def derive_all(family, census=None, history=True):
    """{fid: FunctionDefinition} for the whole family (own callables first, then the re-specifications of them)"""
    shared, pool, out = {}, {}, {}
    funs = [f for l in family["chain"] for f in l["funs"]]
    _fname[0] = family.get("fname", "f")
    try:
        for f in funs:
            if f.get("payload_of") is None:
                out[f["fid"]] = make_function(f, census, history, shared, pool)
        for f in funs:
            if f.get("payload_of") is not None:
                out[f["fid"]] = make_function(f, census, history, shared, pool)
    except (exceptions.InvalidMethodException, SyntaxError) as e:
        raise BadFamily(repr(e))
    return out


SHARED_WHAT = ("a ParameterDefinition object is shared between two FunctionDefinitions derived from the same callable: a later "
               "registration / strip_hidden_parameters / insert_parameter rewrites the alias or position the other one resolves with")


def shared_parameters(census):
    """identity census: ParameterDefinition objects that belong to two different FunctionDefinitions"""
    owner, out = {}, []
    seen_fd = set()
    for fd in census:
        if id(fd) in seen_fd:
            continue
        seen_fd.add(id(fd))
        for key, q in fd.parameters.items():
            if id(q) in owner and owner[id(q)] is not fd:
                out.append(q.name)
            owner[id(q)] = fd
    return out


def _default_src(v):
    if v == "null":
        return "None"
    if v[0] == "obj":
        return "INST[%d]" % v[1]
    if v[0] == "int":
        return repr(v[1])
    raise ValueError(v)


class OrderedContext(contexts.Context):
    """Context whose get_functions returns an ORDERED LIST fixed by the harness"""

    def __init__(self, parent_context=None, data=utils.NO_VALUE, convention=None):
        super().__init__(parent_context, data, convention)
        self.order = []

    def get_functions(self, name, predicate=None, use_convention=False):
        fs, excl = super().get_functions(name, predicate, use_convention)
        return [f for f in self.order if f in fs] + [f for f in fs if f not in self.order], excl


class OrderedMulti(contexts.MultiContext):
    """MultiContext whose get_functions returns the union as an ORDERED LIST fixed by the harness"""

    def __init__(self, context_list, convention=None):
        super().__init__(context_list, convention)
        self.order = []

    def get_functions(self, name, predicate=None, use_convention=False):
        fs, excl = super().get_functions(name, predicate, use_convention)
        return [f for f in self.order if f in fs] + [f for f in fs if f not in self.order], excl


_engine = None


def engine():
    global _engine
    if _engine is None:
        _engine = yaql.YaqlFactory().create()
    return _engine


class BadFamily(Exception):
    pass


_probe = {"log": None, "table": {}}


@specs.name("p")
@specs.parameter("i", yaqltypes.PythonType(int, False))
def _probe_function(i):
    _probe["log"].append(i)
    return _probe["table"][i]


def layer_members(layer):
    """[[fun, ...], ...]: the overloads of each member context of the layer"""
    shape = layer.get("shape", "plain")
    if shape in ("multi", "linked-multi") and layer.get("members"):
        by = {f["fid"]: f for f in layer["funs"]}
        ms = [[by[i] for i in m if i in by] for m in layer["members"]]
        rest = [f for f in layer["funs"] if not any(f in m for m in ms)]
        if rest:
            ms[0] = ms[0] + rest
        return ms
    return [list(layer["funs"])]


def build_chain(family, census=None, history=True):
    """-> (innermost context, {fid: FunctionDefinition})"""
    from yaql.standard_library import system
    ctx, fds = None, {}
    ctx = OrderedContext(None)                 # outermost: what the text route needs (probe calls, the dot operator)
    ctx.register_function(_probe_function)
    ctx.register_function(system.op_dot)
    made_all = derive_all(family, census, history)
    for layer in reversed(family["chain"]):
        shape = layer.get("shape", "plain")
        parent = ctx
        members = layer_members(layer)
        marked = any(f.get("xreg") for f in layer["funs"])
        made = {fun["fid"]: made_all[fun["fid"]] for fun in layer["funs"]}
        mctx = []
        for i, mfuns in enumerate(members):
            conv = conventions.CamelCaseConvention()
            if shape in ("linked", "linked-multi"):
                m = OrderedContext(None, convention=conv)     # the linked context brings no parent of its own
            else:
                m = OrderedContext(parent if (i == 0 or shape == "plain") else None, convention=conv)
            mctx.append((m, mfuns))
        where = {f["fid"]: m for m, mfuns in mctx for f in mfuns}
        for fun in layer["funs"]:
            m = where[fun["fid"]]
            try:
                m.register_function(made[fun["fid"]], exclusive=bool(layer["excl"] and (fun.get("xreg") or not marked)))
            except exceptions.InvalidMethodException as e:
                raise BadFamily(repr(e))
            m.order.append(made[fun["fid"]])
            fds[fun["fid"]] = made[fun["fid"]]
        if layer["excl"] and not layer["funs"]:
            mctx[0][0]._exclusive_funcs.add(camel(family.get("fname", "f")))
        order = [made[f["fid"]] for f in layer["funs"]]
        if shape == "plain":
            ctx = mctx[0][0]
        elif shape == "multi":
            ctx = OrderedMulti([m for m, _ in mctx])
            ctx.order = order
        elif shape == "linked":
            ctx = contexts.LinkedContext(parent, mctx[0][0])
        else:
            inner = OrderedMulti([m for m, _ in mctx])
            inner.order = order
            ctx = contexts.LinkedContext(parent, inner)
    _FID_OF.clear()
    _FID_OF.update({id(fd): (fid, fd) for fid, fd in fds.items()})
    ctx._verif_fname = family.get("fname", "f")
    return ctx, fds


# which definition ran: overloads may share one payload callable, so the payload's own tag cannot tell; the
# delegate that is finally INVOKED belongs to the winner (class-level observation point, nothing in /repo changes)
_FID_OF = {}
_invoked = []
_orig_get_delegate = specs.FunctionDefinition.get_delegate


def _observing_get_delegate(self, *a, **k):
    d = _orig_get_delegate(self, *a, **k)
    if id(self) not in _FID_OF:
        return d

    def delegate():
        _invoked.append(_FID_OF[id(self)][0])
        return d()
    return delegate


specs.FunctionDefinition.get_delegate = _observing_get_delegate


# ---- canonical observation ---------------------------------------------------------------
ERR = {
    (exceptions.NoMatchingFunctionException, False): "ENoMatch", (exceptions.NoMatchingMethodException, True): "ENoMatch",
    (exceptions.AmbiguousFunctionException, False): "EAmbiguous", (exceptions.AmbiguousMethodException, True): "EAmbiguous",
    (exceptions.NoFunctionRegisteredException, False): "EUnknown", (exceptions.NoMethodRegisteredException, True): "EUnknown",
    (exceptions.ArgumentException, False): "EArg", (exceptions.ArgumentException, True): "EArg",
    (exceptions.MappingTranslationException, False): "EMapping", (exceptions.MappingTranslationException, True): "EMapping",
}


def canon_bound(o, table):
    """what a payload received -> JSON bval"""
    v = value_code(o)
    if v is not None:
        return ["val", v]
    if o is engine():
        return ["hid", "engine"]
    if isinstance(o, contexts.ContextBase):
        return ["hid", "context"]
    if isinstance(o, expressions.Expression):
        return ["exprobj", table.get(id(o), ["unknown"])]
    if callable(o) and hasattr(o, "__unwrapped__"):
        u = o.__unwrapped__
        if isinstance(u, expressions.Expression):
            return ["callable", table.get(id(u), ["unknown"])]
        if u is utils.NO_VALUE:
            return ["callable", ["skip"]]
        return ["callable", ["raw", value_code(u)]]
    return ["foreign", type(o).__name__]


def bval_term(b):
    if b[0] == "val":
        return "(BVal %s)" % value_term(b[1])
    if b[0] == "hid":
        return "(BHid %s)" % ("HEngine" if b[1] == "engine" else "HContext")
    if b[0] == "exprobj":
        return "(BExprObj %s)" % arg_term(b[1])
    if b[0] == "callable":
        return "(BCallable %s)" % arg_term(b[1])
    raise ValueError(b)


def canon_result(res, table):
    fid, pos, rest, kwonly, kw = res
    if _invoked:
        fid = _invoked[-1]
    posl = [canon_bound(o, table) for o in tuple(pos) + tuple(rest)]
    kwl = sorted([[k, canon_bound(o, table)] for k, o in kwonly] + [[k, canon_bound(o, table)] for k, o in kw.items()])
    return ["chosen", fid, posl, kwl]


def run_call(family, call, ctx=None):
    """-> (observation, log).  observation = ["chosen", fid, pos, kw] | ["err", name] | ["foreign", class name]"""
    if ctx is None:
        ctx, _ = build_chain(family)
    log, table = [], {}
    _hostile_mode[0] = call.get("hostile", 0)
    try:
        return _run_call(call, ctx, log, table)
    finally:
        _hostile_mode[0] = 0


def _run_call(call, ctx, log, table):
    args = tuple(build_arg(a, log, table) for a in call["args"])
    kwargs = {k: py_value(v) for k, v in call["kwargs"]}
    has_recv = call["recv"] is not None
    receiver = py_value(call["recv"]) if has_recv else utils.NO_VALUE
    del _invoked[:]
    try:
        fname = getattr(ctx, "_verif_fname", "f")
        if call.get("by") == "python":
            res = ctx(fname, engine(), receiver, use_convention=True)(*args, **kwargs)
        else:
            res = ctx(camel(fname), engine(), receiver)(*args, **kwargs)
        obs = canon_result(res, table)
    except Exception as e:
        name = ERR.get((type(e), has_recv))
        obs = ["err", name] if name else ["foreign", type(e).__name__]
    return obs, list(log)


def call_text(call, fname="f"):
    """the call as YAQL text, or None when the grammar cannot spell it (plain python values, class
    instances as constants, python-level keywords, a named argument before a positional one)"""
    def simple(kind, *rest):
        if kind == "expr":
            return "p(%d)" % rest[0]
        v = rest[-1]
        if v == "null":
            return "null"
        if v != "marker" and v[0] == "int" and v[1] >= 0:
            return str(v[1])
        return None
    if call["kwargs"]:
        return None
    pos, named = [], []
    for a in call["args"]:
        if a[0] == "mapc":
            t = simple("const", a[2])
            named.append((a[1], t))
        elif a[0] == "mape":
            named.append((a[1], simple("expr", a[2])))
        elif named:
            return None
        elif a[0] == "skip":
            pos.append("")
        elif a[0] == "expr":
            pos.append(simple("expr", a[1]))
        elif a[0] == "const":
            pos.append(simple("const", a[1]))
        else:
            return None
    if any(t is None for t in pos) or any(t is None for _, t in named):
        return None
    text = "%s(%s)" % (camel(fname), ", ".join(pos + ["%s => %s" % nt for nt in named]))
    if call["recv"] is not None:
        text = "p(0)." + text
    return text


def run_call_text(family, call, ctx, text):
    """the same call through the real lexer/parser; None when the text does not parse"""
    try:
        stmt = engine()(text)
    except exceptions.YaqlParsingException:
        return None
    node = stmt.expression
    has_recv = call["recv"] is not None
    fnode = node.args[1] if has_recv else node
    if len(fnode.args) != len(call["args"]):
        return None
    log, table, values = [], {}, {}
    _hostile_mode[0] = call.get("hostile", 0)
    try:
        return _run_call_text(call, node, fnode, has_recv, ctx, log, table, values)
    finally:
        _hostile_mode[0] = 0


def _run_call_text(call, node, fnode, has_recv, ctx, log, table, values):
    for a, e in zip(call["args"], fnode.args):
        table[id(e)] = a
        if a[0] == "expr":
            values[a[1]] = py_value(a[2])
        elif a[0] == "mape":
            values[a[2]] = py_value(a[3])
            table[id(e.destination)] = ["expr", a[2], a[3]]
        elif a[0] == "mapc":
            table[id(e.destination)] = ["const", a[2]]
    if has_recv:
        values[0] = py_value(call["recv"])
    _probe["log"], _probe["table"] = log, values
    del _invoked[:]
    try:
        res = node(utils.NO_VALUE, ctx, engine())
        obs = canon_result(res, table)
    except Exception as e:
        name = ERR.get((type(e), has_recv))
        obs = ["err", name] if name else ["foreign", type(e).__name__]
    if has_recv and log[:1] == [0]:
        log = log[1:]
    return obs, list(log)


def obs_ok_for_model(obs):
    if obs[0] == "err":
        return True
    if obs[0] == "foreign":
        return False
    return all(b[0] != "foreign" and (b[0] not in ("exprobj", "callable") or b[1] != ["unknown"])
               for b in obs[2] + [kv[1] for kv in obs[3]])


def obs_term(obs):
    if obs[0] == "err":
        return "(Failed %s)" % obs[1]
    return "(Chosen %s %s %s)" % (gal.z(obs[1]), gal.lst(bval_term(b) for b in obs[2]),
                                  gal.lst(gal.pair(gal.z(ncode(k)), bval_term(b)) for k, b in obs[3]))


# ---- Gallina printers for the real FunctionDefinition objects ---------------------------------
def kind_term(vt):
    if isinstance(vt, yaqltypes.HiddenParameterType):
        if isinstance(vt, yaqltypes.Engine):
            return "(KHidden HEngine)"
        if isinstance(vt, yaqltypes.Context):
            return "(KHidden HContext)"
        raise ValueError(vt)
    if isinstance(vt, yaqltypes.MappingRule):
        return "KMapRule"
    if type(vt) is yaqltypes.Constant:
        return "(KConstant %s)" % gal.boolean(vt.nullable)
    if isinstance(vt, yaqltypes.Lambda):
        return "KLambda"
    if isinstance(vt, yaqltypes.YaqlExpression):
        return "KExpr"
    if isinstance(vt, yaqltypes.PythonType):
        return "(KTyped %d %s)" % (CLASSES.index(vt.python_type), gal.boolean(vt.nullable))
    if isinstance(vt, yaqltypes.AnyOf):
        return "(KAnyOf %s %s)" % (gal.natlist(CLASSES.index(t.python_type) for t in vt.types), gal.boolean(vt.nullable))
    if isinstance(vt, yaqltypes.SmartType):
        return probed_term(vt)
    raise ValueError(vt)


def probed_term(vt):
    """any other eager smart-type (Chain, NotOfType, ...): described by what its check() answers to the lattice's values"""
    def ok(v):
        try:
            return bool(vt.check(v, None, engine()))
        except Exception:
            return False
    reps = [(0, 7)] + [(c, INST[c]) for c in range(1, NCLS)]
    accr = [c for c, o in reps if ok(o)]
    accc = [c for c, o in reps if ok(expressions.Constant(o))]
    mapping = expressions.MappingRuleExpression(expressions.KeywordConstant("k"), expressions.Constant(1))
    unwrap = True
    for c, o in reps:
        if c in accc:
            try:
                unwrap = not isinstance(vt.convert(expressions.Constant(o), utils.NO_VALUE, None, None, engine()), expressions.Expression)
            except Exception:
                pass
            break
    return "(KProbed false %s %s %s %s %s %s %s None %s)" % (
        gal.natlist(accr), gal.natlist(accc), gal.boolean(ok(None)), gal.boolean(ok(expressions.Constant(None))),
        gal.boolean(ok(utils.NO_VALUE)), gal.boolean(ok(Probe(0, None, []))), gal.boolean(ok(mapping)), gal.boolean(unwrap))


def param_term(key, p):
    default = "None" if p.default is specs.NO_DEFAULT else "(Some %s)" % value_term(value_code(p.default))
    return ("{| pname := %s; palias := %s; ppos := %s; pdefault := %s; pkind := %s; pstar := %s |}" % (
        gal.z(ncode(p.name)), "(Some %s)" % gal.z(ncode(p.alias)) if p.alias else "None",
        "None" if p.position is None else "(Some %d%%nat)" % p.position, default, kind_term(p.value_type),
        "SArgs" if key == "*" else "SKwargs" if key == "**" else "SNone"))


def params_term(fd):
    return gal.lst(param_term(k, p) for k, p in fd.parameters.items())


def fdef_term(fid, fd):
    return "{| fid := %s; fparams := %s; fnokw := %s; fisfun := %s; fismeth := %s |}" % (
        gal.z(fid), params_term(fd), gal.boolean(fd.no_kwargs), gal.boolean(fd.is_function), gal.boolean(fd.is_method))


def chain_term(family, fds):
    return gal.lst("{| lfuns := %s; lexcl := %s |}" % (
        gal.lst(fdef_term(f["fid"], fds[f["fid"]]) for f in layer["funs"]), gal.boolean(layer["excl"]))
        for layer in family["chain"])


def call_args_terms(call):
    args = ([["raw", call["recv"]]] if call["recv"] is not None else []) + call["args"]
    return (gal.lst(arg_term(a) for a in args),
            gal.lst(gal.pair(gal.z(ncode(k)), arg_term(["raw", v])) for k, v in call["kwargs"]))


HEADER = "From YV Require Import Model.Resolution."


def case_term(family, fds, call, obs, log):
    a, k = call_args_terms(call)
    return "{| c_chain := %s; c_recv := %s; c_args := %s; c_kwargs := %s; c_obs := %s; c_log := %s |}" % (
        chain_term(family, fds), gal.boolean(call["recv"] is not None), a, k, obs_term(obs), gal.zlist(log))


# ---- random families and calls -------------------------------------------------------------
VIS_NAMES = ["a", "b", "c", "x_y", "val_"]
KW_NAMES = ["k", "max_count", "opt_", "lim"]
EXPLICIT_ALIAS = {"lim": "limit", "k": None, "c": None}
RELATED = [1, 2, 3, 4, 5, 7, 8]


def gen_value(rng):
    r = rng.random()
    if r < 0.12:
        return "null"
    if r < 0.2:
        return ["int", rng.randrange(0, 5)]
    if r < 0.3:
        return ["obj", 6]
    return ["obj", rng.choice([4, 4, 5, 5, 2, 3, 1, 8, 8, 7])]


def gen_kind(rng, lazy_bias=0.0):
    r = rng.random()
    if r < lazy_bias:
        return rng.choice([["L"], ["L"], ["E"], ["M"]])
    if r > 0.97:
        return ["C"]
    if r > 0.93:
        return ["A", rng.sample(range(0, NCLS), rng.choice([1, 2, 2, 3])), rng.random() < 0.3]
    if r > 0.88:
        return gen_combinator(rng)
    if r < lazy_bias + 0.12:
        return ["U"]
    if r < lazy_bias + 0.2:
        return ["T", 0, rng.random() < 0.5]
    if r < lazy_bias + 0.27:
        return ["T", 6, rng.random() < 0.3]
    return ["T", rng.choice(RELATED), rng.random() < 0.3]


COMBINATOR_POOL = [[2, 6], [3, 6], [2, 3], [7, 3], [6, 1], [0], [2], [5, 6]]


def gen_combinator(rng):
    """a combinator kind from a SMALL pool, so that equal kinds - hence shared instances - recur within a family"""
    name = rng.choice([n for n in combinators() if n in ("AnyOf", "Chain", "NotOfType")] or ["AnyOf"])
    tags = rng.choice(COMBINATOR_POOL)
    if name == "NotOfType":
        tags = [rng.choice([6, 3, 2])]
    if name == "Chain":
        tags = rng.choice([[2, 3], [1, 7], [2], [0, 3]])
    return ["X", name, list(tags), False]


def gen_default(rng, kind):
    r = rng.random()
    if kind[0] == "X":
        return "null" if r < 0.5 else ["obj", rng.choice(range(1, NCLS))]
    if kind[0] in ("C", "M"):
        return ["obj", rng.choice(range(1, NCLS))]        # never acceptable, never None (Constant.convert(None) is not modelled)
    if kind[0] == "T" and r < 0.5:
        # a default the declared type accepts, mostly
        cands = [c for c in range(1, NCLS) if issubclass(CLASSES[c], CLASSES[kind[1]])]
        if cands:
            return ["obj", rng.choice(cands)]
    if r < 0.8:
        return "null"
    return ["obj", rng.choice(range(1, NCLS))]


def gen_fun(rng, fid, shape):
    nvis = max(0, min(4, shape["nvis"] + rng.choice([0, 0, 0, 0, -1, 1])))
    names = VIS_NAMES[:nvis] if rng.random() < 0.85 else rng.sample(VIS_NAMES, nvis)
    pos = []
    for i, n in enumerate(names):
        lazy = 0.75 if i in shape["lazy"] else 0.03
        pos.append([n, gen_kind(rng, lazy), None])
    # hidden parameters anywhere
    for h in ["engine", "context"]:
        if rng.random() < 0.25:
            pos.insert(rng.randrange(len(pos) + 1), [h, ["H"], None])
    # defaults: a suffix of the positional list
    ndef = rng.choice([0, 0, 1, 1, 2, 3])
    for j in range(len(pos) - 1, max(-1, len(pos) - 1 - ndef), -1):
        if pos[j][1] == ["H"]:
            pos[j][2] = "null"
        else:
            pos[j][2] = gen_default(rng, pos[j][1])
    star = ["rest", gen_kind(rng, 0.05 if not shape["lazy"] else 0.2)] if rng.random() < shape["pstar"] else None
    kwonly = []
    for n in rng.sample(KW_NAMES, 2):
        if rng.random() < shape["pkwonly"] and n not in [p[0] for p in pos]:
            k = gen_kind(rng, 0.04)
            kwonly.append([n, k, gen_default(rng, k) if rng.random() < 0.7 else None])
    # explicit aliases (alias=...) on some parameters
    for q in pos + kwonly:
        if q[0] in EXPLICIT_ALIAS and q[1] != ["H"] and rng.random() < 0.5:
            q.append(EXPLICIT_ALIAS[q[0]] or (q[0] + "Alias"))
    if rng.random() < 0.06 and not any(p[0] == "context" for p in pos):
        kwonly.append(["context", ["H"], None])
    starstar = ["kw", gen_kind(rng, 0.03)] if rng.random() < shape["pss"] else None
    kind = rng.choices(["function", "method", "extension"], shape["kindw"])[0]
    if kind != "function":
        vis = [p for p in pos if p[1] != ["H"]]
        if not vis:
            pos.insert(0, ["a", gen_kind(rng), None])      # no default in front: always legal
        first = [p for p in pos if p[1] != ["H"]][0]
        if first[1][0] in ("L", "E", "M"):
            first[1] = ["T", rng.choice(RELATED), False]
    nokw = rng.random() < shape["pnokw"]
    fun = {"fid": fid, "pos": pos, "star": star, "kwonly": kwonly, "starstar": starstar, "kind": kind, "nokw": nokw}
    if rng.random() < 0.6:
        names = [q[0] for q in pos + kwonly]
        rng.shuffle(names)
        fun["decl"] = names
    return fun


def add_variants(rng, chain, next_fid, p=0.3, pool_kind=None):
    """some layers get further parameter specifications of an existing overload's python callable ("payload_of"):
    same python signature, other parameter types"""
    for layer in chain:
        if not layer["funs"] or rng.random() >= p:
            continue
        for _ in range(rng.choice([1, 1, 2])):
            base = rng.choice([f for f in layer["funs"] if f.get("payload_of") is None])
            v = {"fid": next_fid, "pos": [list(q[:3]) for q in base["pos"]], "star": base["star"] and list(base["star"]),
                 "kwonly": [list(q[:3]) for q in base["kwonly"]], "starstar": base["starstar"] and list(base["starstar"]),
                 "kind": base["kind"], "nokw": base["nokw"], "payload_of": base["fid"]}
            next_fid += 1
            first = True
            for q in v["pos"] + v["kwonly"]:
                if q[1] == ["H"]:
                    continue
                if q[1][0] not in ("L", "E", "M", "C"):
                    q[1] = pool_kind(rng) if pool_kind else gen_kind(rng)
                    if first and v["kind"] != "function" and q[1][0] in ("L", "E", "M"):
                        q[1] = ["T", rng.choice(RELATED), False]
                first = False
            if "xreg" in base:
                v["xreg"] = rng.random() < 0.5
            layer["funs"].insert(rng.randrange(len(layer["funs"]) + 1), v)
    return next_fid


FAMILY_NAMES = ["f", "f", "my_func", "to_list_", "do_it_now", "g_"]


def add_shapes(rng, chain, p_multi=0.3, p_hist=0.25):
    """some layers become MultiContexts / LinkedContexts over member contexts; some overloads get a
    registration history (the same callable derived under another convention, derived definitions modified)"""
    for layer in chain:
        r = rng.random()
        if r < p_multi and len(layer["funs"]) >= 2:
            k = rng.choice([2, 2, 3])
            members = [[] for _ in range(k)]
            for f in layer["funs"]:
                members[rng.randrange(k)].append(f["fid"])
            members = [m for m in members if m] or [[f["fid"] for f in layer["funs"]]]
            layer["shape"] = "multi" if rng.random() < 0.75 else "linked-multi"
            layer["members"] = members
        elif r < p_multi + 0.1:
            layer["shape"] = "linked"
        for f in layer["funs"]:
            if rng.random() < p_hist:
                f["history"] = rng.sample(HISTORY_OPS, rng.choice([1, 1, 2, 3]))


def mark_exclusive(rng, chain):
    """an exclusive layer: a random non-empty subset of its overloads is registered with exclusive=True"""
    for layer in chain:
        if layer["excl"] and layer["funs"]:
            flags = [rng.random() < 0.5 for _ in layer["funs"]]
            if not any(flags):
                flags[rng.randrange(len(flags))] = True
            for f, x in zip(layer["funs"], flags):
                f["xreg"] = x


def gen_family(rng):
    shape = {
        "nvis": rng.choice([0, 1, 1, 2, 2, 2, 3, 3, 4]),
        "lazy": set(rng.sample(range(4), rng.choice([0, 0, 0, 1, 1, 2]))),
        "pstar": rng.choice([0.0, 0.15, 0.5]), "pkwonly": rng.choice([0.0, 0.2, 0.6]),
        "pss": rng.choice([0.0, 0.1, 0.5]),
        "kindw": rng.choice([[1, 0, 0], [6, 2, 2], [2, 3, 3], [1, 1, 4]]),
        "pnokw": rng.choice([0.0, 0.0, 0.0, 0.0, 0.1, 1.0]),
    }
    nlayers = rng.choice([1, 1, 2, 2, 3, 4])
    chain, fid = [], 1
    for _ in range(nlayers):
        n = rng.choice([0, 1, 1, 2, 2, 3, 3, 4])
        funs = []
        for _ in range(n):
            funs.append(gen_fun(rng, fid, shape))
            fid += 1
        chain.append({"excl": rng.random() < 0.2, "funs": funs})
    mark_exclusive(rng, chain)
    add_variants(rng, chain, fid)
    add_shapes(rng, chain)
    fam = {"chain": chain, "fname": rng.choice(FAMILY_NAMES)}
    fam["shape_lazy"] = sorted(shape["lazy"])
    return fam


def alias_of(name):
    return camel(name)


def colliding_names(funs):
    """keyword names that a ** parameter would hand to the payload under the python name of another
    parameter (python itself then raises TypeError: multiple values) - not generated"""
    out = set()
    for f in funs:
        if f["starstar"]:
            for p in f["pos"] + f["kwonly"]:
                if palias(p) != p[0]:
                    out.add(p[0])
    return out


def gen_value_for(rng, kind):
    """a value the parameter kind accepts, mostly"""
    if kind is None or rng.random() < 0.25 or kind[0] != "T":
        return gen_value(rng)
    t = kind[1]
    if kind[2] and rng.random() < 0.15:
        return "null"
    if t == 0:
        return gen_value(rng)
    cands = [c for c in range(1, NCLS) if issubclass(CLASSES[c], CLASSES[t])]
    return ["obj", rng.choice(cands)]


def gen_call(rng, family):
    funs = [f for l in family["chain"] for f in l["funs"]]
    has_meth = any(f["kind"] != "function" for f in funs)
    target = rng.choice(funs) if funs else None
    if target is not None and target["kind"] == "method":
        with_recv = rng.random() < 0.9
    elif target is not None and target["kind"] == "function":
        with_recv = rng.random() < (0.15 if has_meth else 0.05)
    else:
        with_recv = rng.random() < 0.5
    vis = [p for p in (target["pos"] if target else []) if p[1] != ["H"]]
    recv = gen_value_for(rng, vis[0][1] if vis else None) if with_recv else None
    vis_rest = vis[1:] if recv is not None and vis else vis
    nvis = len(vis_rest)
    r = rng.random()
    npos = nvis if r < 0.5 else rng.randrange(0, nvis + 1) if r < 0.85 else nvis + rng.choice([1, 2])
    next_id = itertools.count(1)

    def simple(kind=None, eager_bias=0.65):
        v = gen_value_for(rng, kind)
        r2 = rng.random()
        if r2 < eager_bias:
            return ["expr", next(next_id), v]
        if r2 < 0.9:
            return ["const", v]
        return ["raw", v]

    args = []
    for i in range(npos):
        if rng.random() < 0.1:
            args.append(["skip"])
        else:
            args.append(simple(vis_rest[i][1] if i < nvis else (target["star"][1] if target and target["star"] else None)))
    # keyword spellings for parameters not given positionally (aliases), sometimes wrong / duplicated names
    later = [p for p in vis_rest[npos:]] + [p for p in (target["kwonly"] if target else []) if p[1] != ["H"]]
    mapped, pykw = [], []
    for p in later:
        n = palias(p)
        if rng.random() < 0.07 and p[0] not in colliding_names(funs):
            n = p[0]                                             # sometimes the python name instead of the alias
        if rng.random() < (0.85 if p[2] is None else 0.5):
            s = simple(p[1])
            if s[0] == "raw" or rng.random() < 0.15:
                pykw.append([n, gen_value_for(rng, p[1])])
            else:
                mapped.append(["mapc", n, s[1]] if s[0] == "const" else ["mape", n, s[1], s[2]])
    if rng.random() < 0.15:
        n = rng.choice([x for x in ["zz", "x_y", "a", "k", "xY", "val", "val_", "max_count", "maxCount", "lim", "limit", "opt"]
                        if x not in colliding_names(funs)])
        if rng.random() < 0.5:
            pykw.append([n, gen_value(rng)])
        else:
            s = simple(None, 0.8)
            mapped.append(["mape", n, s[1], s[2]] if s[0] == "expr" else ["mapc", n, s[1]])
    if mapped and rng.random() < 0.04:
        pykw.append([rng.choice(mapped)[1], gen_value(rng)])          # the same name twice: translation error
    if mapped and rng.random() < 0.04:
        m = rng.choice(mapped)
        mapped.append(["mape", m[1], next(next_id), gen_value(rng)])   # the same name in two mapping arguments
    bad = colliding_names(funs)
    mapped = [m for m in mapped if m[1] not in bad]
    pykw = [kv for kv in pykw if kv[0] not in bad]
    # mapping expressions may stand anywhere among the positional arguments
    for m in mapped:
        if rng.random() < 0.8:
            args.append(m)
        else:
            args.insert(rng.randrange(len(args) + 1), m)
    # python keyword names must be unique
    seen, pk = set(), []
    for k, v in pykw:
        if k not in seen:
            seen.add(k)
            pk.append([k, v])
    out = {"recv": recv, "args": args, "kwargs": pk}
    if rng.random() < 0.4:
        out["by"] = "python"          # looked up by the python-style name with use_convention=True
    if rng.random() < 0.25:
        out["hostile"] = rng.choice(sorted(HOSTILE_PROTOCOLS))      # the argument objects carry a hostile comparison / truthiness protocol
    return out


def family_features(family, call, obs):
    funs = [f for l in family["chain"] for f in l["funs"]]
    feats = set()
    if any(p[1] == ["H"] for f in funs for p in f["pos"]):
        feats.add("hidden")
    if any(p[1][0] in ("L", "E", "M") for f in funs for p in f["pos"]):
        feats.add("lazy")
    if any(p[1][0] == "C" for f in funs for p in f["pos"]):
        feats.add("constant-kind")
    if any(f["star"] for f in funs):
        feats.add("star")
    if any(f["starstar"] for f in funs):
        feats.add("starstar")
    if any(f["kwonly"] for f in funs):
        feats.add("kwonly")
    if any(l["excl"] for l in family["chain"]):
        feats.add("exclusive")
    if len(family["chain"]) > 1:
        feats.add("layers")
    if any(l.get("shape", "plain") != "plain" for l in family["chain"]):
        feats.add("multi/linked")
    if any(f.get("history") for f in funs):
        feats.add("history")
    if any(f.get("payload_of") is not None for f in funs):
        feats.add("shared-payload")
    if any(p[1][0] in ("A", "X") for f in funs for p in f["pos"]):
        feats.add("combinator")
    if call["recv"] is not None:
        feats.add("receiver")
    if any(a[0] == "skip" for a in call["args"]):
        feats.add("skipped")
    if any(a[0] in ("mapc", "mape") for a in call["args"]):
        feats.add("keyword")
    if call["kwargs"]:
        feats.add("pykwargs")
    if call.get("hostile"):
        feats.add("hostile-values")
    return feats


# ---- an independent implementation of the documented rules (no yaql code involved) ---------------
def _strict_sub(t1, t2):
    return t1 != t2 and issubclass(CLASSES[t1], CLASSES[t2])


class SParam:
    def __init__(self, name, kind, default, where, alias=None):
        self.name, self.where = name, where              # where: "pos" | "star" | "kwonly" | "starstar"
        self.alias = alias or camel(name)
        self.has_default = default is not None
        self.default = default
        if kind[0] == "U":
            if default is None or default == "null":
                kind = ["T", 0, True]
            elif default[0] == "obj":
                kind = ["T", default[1], True]
            else:
                raise ValueError(default)
        self.kind = kind
        self.hidden = kind[0] == "H"
        self.lazy = kind[0] in ("L", "E", "M")

    def accepts(self, a):
        """a: JSON arg (possibly not evaluated yet)"""
        k = self.kind[0]
        if k in ("H", "L"):
            return True
        if k == "E":
            return a[0] in ("const", "expr", "mapc", "mape")
        if k == "C":
            return a[0] == "const"
        if k == "M":
            return a[0] in ("mapc", "mape")
        if k == "X":
            return self._combinator_accepts(a)
        if k == "A":
            if a[0] in ("expr", "mapc", "mape"):
                return bool(self.kind[1])
            v = "marker" if a[0] == "skip" else a[1]
            if v == "null":
                return self.kind[2]
            if v == "marker" or v[0] == "int":
                return 0 in self.kind[1]
            return any(issubclass(CLASSES[v[1]], CLASSES[t]) for t in self.kind[1])
        if a[0] in ("expr", "mapc", "mape"):
            return True                              # decided after evaluation
        v = "marker" if a[0] == "skip" else a[1]
        if v == "null":
            return self.kind[2]
        if v == "marker" or v[0] == "int":
            return self.kind[1] == 0
        return issubclass(CLASSES[v[1]], CLASSES[self.kind[1]])

    def _combinator_accepts(self, a):
        """AnyOf: some member accepts; Chain: every member accepts; NotOfType-like: the member does not"""
        name, tags, nullable = self.kind[1], self.kind[2], self.kind[3]
        if a[0] in ("expr", "mapc", "mape"):
            return bool(tags) or name != "AnyOf"
        v = "marker" if a[0] == "skip" else a[1]
        if v == "null":
            return nullable
        def inst(t):
            if v == "marker" or v[0] == "int":
                return t == 0
            return issubclass(CLASSES[v[1]], CLASSES[t])
        if name == "AnyOf":
            return any(inst(t) for t in tags)
        if name == "Chain":
            return all(inst(t) for t in tags)
        if name == "NotOfType":
            return not inst(tags[0])
        raise ValueError(name)

    def deliver(self, a):
        k = self.kind[0]
        if k == "H":
            return ["hid", self.name]
        if k == "L":
            return ["val", "null"] if a == ["raw", "null"] else ["callable", a]
        if k == "E":
            return ["exprobj", a]
        if k == "M":
            return ["val", ["int", MAPRULE_CODE]]
        if k == "X" and self.kind[1] == "NotOfType" and a[0] == "const":
            return ["exprobj", a]          # NotOfType inherits SmartType.convert: a constant expression is handed over as it is
        if a[0] in ("const", "raw"):
            return ["val", a[1]]
        if a[0] == "skip":
            return ["val", "marker"]
        return ["exprobj", a]


def _sparams(fun):
    ps = [SParam(q[0], q[1], q[2], "pos", q[3] if len(q) > 3 else None) for q in fun["pos"]]
    star = SParam(fun["star"][0], fun["star"][1], None, "star") if fun["star"] else None
    kwonly = [SParam(q[0], q[1], q[2], "kwonly", q[3] if len(q) > 3 else None) for q in fun["kwonly"]]
    ss = SParam(fun["starstar"][0], fun["starstar"][1], None, "starstar") if fun["starstar"] else None
    return ps, star, kwonly, ss


def spec_bind(fun, pos, kw, syntax_only):
    """Bind a call declaratively.  -> None, or (slots, kws, delivered)
    slots: per positional argument the parameter; kws: per keyword the parameter.
    syntax_only: the check made before evaluation (positional arguments and ** leftovers are
    type-checked as far as they are constants; keyword-matched ones are not)."""
    ps, star, kwonly, ss = _sparams(fun)
    vis = [p for p in ps if not p.hidden]
    left = dict(kw)
    slots = [None] * len(pos)
    kws = {}
    bound = {}
    for i, p in enumerate(vis):
        given = i < len(pos) and pos[i] != ["skip"]
        if given:
            if p.alias in left:
                return None
            slots[i] = p
            bound[p.name] = (pos[i], True)
        elif p.alias in left:
            kws[p.alias] = p
            bound[p.name] = (left.pop(p.alias), False)
        elif p.has_default:
            if i < len(pos):
                slots[i] = p
            bound[p.name] = (["raw", p.default], i < len(pos))
        else:
            return None
    for p in kwonly:
        if p.hidden:
            continue
        if p.alias in left:
            kws[p.alias] = p
            bound[p.name] = (left.pop(p.alias), False)
        elif p.has_default:
            bound[p.name] = (["raw", p.default], None)
        else:
            return None
    extra = list(pos[len(vis):])
    if extra and star is None:
        return None
    for i in range(len(vis), len(pos)):
        slots[i] = star
    for i in range(min(len(vis), len(pos))):
        if slots[i] is None:
            # an empty slot whose parameter is passed by keyword: the slot itself falls to *args
            if star is None:
                return None
            slots[i] = star
            if syntax_only and not star.accepts(["skip"]):
                return None
    if left and ss is None:
        return None
    for k in left:
        kws[k] = ss
    # type checks
    for p in vis + [q for q in kwonly if not q.hidden]:
        a, checked_before = bound[p.name]
        if (not syntax_only or checked_before) and not p.accepts(a):
            return None
    for a in extra:
        if not star.accepts(a):
            return None
    for k, a in left.items():
        if not ss.accepts(a):
            return None
    if syntax_only:
        return slots, kws, None
    posl = []
    for p in ps:
        posl.append(p.deliver(None) if p.hidden else p.deliver(bound[p.name][0]))
    posl += [star.deliver(a) for a in extra]
    kwl = [[p.name, p.deliver(None) if p.hidden else p.deliver(bound[p.name][0])] for p in kwonly]
    kwl += [[k, ss.deliver(a)] for k, a in left.items()]
    return slots, kws, (posl, sorted(kwl))


def _more_specific(b1, b2):
    pairs = list(zip(b1[0], b2[0])) + [(p, b2[1][k]) for k, p in b1[1].items()]
    def lt(p, q):
        return p.kind[0] == "T" and q.kind[0] == "T" and _strict_sub(p.kind[1], q.kind[1])
    return not any(lt(q, p) for p, q in pairs) and any(lt(p, q) for p, q in pairs)


def _eval(a, lazy, log):
    if lazy:
        return a
    if a[0] == "expr":
        log.append(a[1])
        return ["raw", a[2]]
    if a[0] == "mapc":
        return ["raw", ["int", MAPRULE_CODE]]
    if a[0] == "mape":
        log.append(a[2])
        return ["raw", ["int", MAPRULE_CODE]]
    return a


def spec_resolve(family, call):
    """the documented rules -> (observation, log)"""
    has_recv = call["recv"] is not None
    layers = []
    for layer in family["chain"]:
        fs = [f for f in layer["funs"] if (f["kind"] != "function" if has_recv else f["kind"] != "method")]
        if fs:
            layers.append(fs)
        if layer["excl"]:
            break
    if not layers:
        return ["err", "EUnknown"], []
    allc = [f for l in layers for f in l]
    if len({f["nokw"] for f in allc}) > 1:
        return ["err", "EAmbiguous"], []
    args = ([["raw", call["recv"]]] if has_recv else []) + call["args"]
    if allc[0]["nokw"]:
        if call["kwargs"]:
            return ["err", "EArg"], []
        pos, kw = list(args), {}
    else:
        pos, kw = [], {}
        for a in args:
            if a[0] == "mapc":
                kw[camel_id(a[1])] = ["const", a[2]]
            elif a[0] == "mape":
                kw[camel_id(a[1])] = ["expr", a[2], a[3]]
            else:
                pos.append(a)
        for k, v in call["kwargs"]:
            if k in kw:
                return ["err", "EMapping"], []
            kw[k] = ["raw", v]
    usable = [[(f, b) for f in l for b in [spec_bind(f, pos, kw, True)] if b is not None] for l in layers]
    flat = [x for l in usable for x in l]
    sigs = {(tuple(p.lazy for p in b[0]), frozenset(k for k, p in b[1].items() if p.lazy)) for _, b in flat}
    if len(sigs) > 1:
        return ["err", "EAmbiguous"], []
    if not flat:
        return ["err", "ENoMatch"], []
    lz = next(iter(sigs))
    log = []
    pos2 = [_eval(a, lz[0][i], log) for i, a in enumerate(pos)]
    kw2 = {k: _eval(a, k in lz[1], log) for k, a in kw.items()}
    for l in usable:
        ok = [(f, b, spec_bind(f, pos2, kw2, False)) for f, b in l]
        ok = [(f, b, d) for f, b, d in ok if d is not None]
        if ok:
            win = [(f, d) for f, b, d in ok if all(f2 is f or _more_specific(b, b2) for f2, b2, _ in ok)]
            if len(win) != 1:
                return ["err", "EAmbiguous"], log
            f, d = win[0]
            return ["chosen", f["fid"], d[2][0], d[2][1]], log
    return ["err", "ENoMatch"], log


def camel_id(k):
    return k


def normalise_obs(obs):
    """spec observations name hidden kinds by parameter name"""
    return obs


# ---- families aimed at several simultaneously matching candidates (C06) ---------------------------
def gen_family_dense(rng):
    """several simultaneously matching candidates per layer.  Parameter types come either from the
    chain-and-diamond part of the lattice or from a mutually unrelated pool (object / G / B / AnyOf /
    A ...), where "specialization of a mapping" stops being transitive; exclusive layers register only
    some of their overloads with exclusive=True."""
    nvis = rng.choice([1, 1, 2, 2, 2, 3, 3])
    nlayers = rng.choice([1, 1, 1, 2, 2, 3])
    mixed_nokw = rng.random() < 0.08
    use_kw = rng.random() < 0.3
    kwname = rng.choice(["k", "max_count", "opt_"])
    unrelated = rng.random() < 0.5
    chain, fid = [], 1
    for li in range(nlayers):
        funs = []
        for _ in range(rng.choice([2, 3, 3, 4, 5, 6])):
            pos = []
            for n in VIS_NAMES[:nvis]:
                if unrelated:
                    r = rng.random()
                    if r < 0.12:
                        kind = gen_combinator(rng)
                    elif r < 0.3:
                        kind = ["A", rng.choice([[2, 3], [7, 3], [0], [2, 6], [6, 2], [3, 6]]), False]
                    else:
                        kind = ["T", rng.choice([0, 0, 2, 3, 7, 7, 8]), rng.random() < 0.2]
                else:
                    kind = ["T", rng.choice([0, 1, 2, 2, 3, 3, 4, 4, 5]), rng.random() < 0.2]
                pos.append([n, kind, None])
            if rng.random() < 0.2:
                pos.insert(rng.randrange(len(pos) + 1), ["engine", ["H"], None])
            if rng.random() < 0.3:
                pos[-1][2] = "null" if pos[-1][1] == ["H"] else gen_default(rng, pos[-1][1])
            kwonly = [[kwname, ["T", rng.choice([0, 1, 2, 3, 4]), True], "null"]] if use_kw and rng.random() < 0.7 else []
            funs.append({"fid": fid, "pos": pos, "star": ["rest", ["T", rng.choice([0, 2, 3, 4]), True]] if rng.random() < 0.1 else None,
                         "kwonly": kwonly, "starstar": None, "kind": rng.choice(["function", "function", "extension"]),
                         "nokw": (rng.random() < 0.5) if mixed_nokw else False,
                         "decl": rng.sample([q[0] for q in pos + kwonly], len(pos) + len(kwonly))})
            fid += 1
        chain.append({"excl": rng.random() < (0.3 if li < nlayers - 1 else 0.1), "funs": funs})
    mark_exclusive(rng, chain)

    def dense_kind(r):
        x = r.random()
        if not unrelated:
            return ["T", r.choice([0, 1, 2, 2, 3, 3, 4, 4, 5]), r.random() < 0.2]
        if x < 0.12:
            return gen_combinator(r)
        if x < 0.3:
            return ["A", r.choice([[2, 3], [7, 3], [0], [2, 6], [6, 2], [3, 6]]), False]
        return ["T", r.choice([0, 0, 2, 3, 7, 7, 8]), r.random() < 0.2]
    add_variants(rng, chain, fid, p=0.35, pool_kind=dense_kind)
    add_shapes(rng, chain, p_multi=0.4, p_hist=0.2)
    return {"chain": chain, "kwname": kwname, "fname": rng.choice(FAMILY_NAMES)}


def gen_call_dense(rng, family):
    nvis = max(len([p for p in f["pos"] if p[1] != ["H"]]) for l in family["chain"] for f in l["funs"])
    ids = itertools.count(1)
    args = []
    narrow = rng.random() < 0.25             # values only the widest types accept: inner layers often have no match
    npos = nvis if rng.random() < 0.85 else rng.randrange(nvis + 1)
    by_keyword = rng.randrange(npos + 1) if rng.random() < 0.35 else npos      # from this slot on: name => value
    for i in range(npos):
        if narrow:
            v = rng.choice([["obj", 6], ["obj", 1], ["int", 1], ["obj", 2], ["obj", 3]])
        else:
            v = rng.choice([["obj", 5], ["obj", 4], ["obj", 8], ["obj", 8], ["obj", 8], ["obj", 2], ["obj", 3], ["obj", 7], "null"])
        if i >= by_keyword:
            args.append(["mape", camel(VIS_NAMES[i]), next(ids), v])
        else:
            args.append(["expr", next(ids), v] if rng.random() < 0.8 else ["const", v])
    kwname = camel(family.get("kwname", "k"))
    if rng.random() < 0.25:
        args.append(["mape", kwname, next(ids), rng.choice([["obj", 4], ["obj", 5], "null"])])
    kwargs = [[kwname, ["obj", 4]]] if rng.random() < 0.08 and not any(a[0] == "mape" for a in args) else []
    recv = None
    if rng.random() < 0.2 and args and args[0][0] == "expr" and by_keyword == npos:
        recv = args[0][2]
        args = args[1:]
    out = {"recv": recv, "args": args, "kwargs": kwargs}
    if rng.random() < 0.4:
        out["by"] = "python"
    if rng.random() < 0.2:
        out["hostile"] = rng.choice(sorted(HOSTILE_PROTOCOLS))
    return out


def shuffled(rng, family):
    fam = dict(family, chain=[dict(l, funs=list(l["funs"]), members=list(l.get("members", []))) for l in family["chain"]])
    for l in fam["chain"]:
        rng.shuffle(l["funs"])
        rng.shuffle(l["members"])
    return fam


def layer_orders(rng, family, limit=50):
    """orders of the whole family: per layer every permutation of its overloads (enumeration AND registration
    order; exhaustive when <= 5 candidates, else `limit` random) combined with every order of the member contexts
    of a MultiContext layer; the product over layers is capped at 720 (random sample beyond)"""
    per_layer = []
    for l in family["chain"]:
        if len(l["funs"]) <= 5:
            fperms = [list(p) for p in itertools.permutations(l["funs"])]
        else:
            fperms = [rng.sample(l["funs"], len(l["funs"])) for _ in range(limit)]
        mperms = [list(p) for p in itertools.permutations(l.get("members", []))] or [[]]
        opts = [(f, m) for f in fperms for m in mperms]
        if len(opts) > 240:
            opts = [(fperms[0], m) for m in mperms] + rng.sample(opts, 200)
        per_layer.append(opts)
    total = 1
    for p in per_layer:
        total *= len(p)
    if total <= 720:
        combos = itertools.product(*per_layer)
    else:
        combos = itertools.chain(
            (tuple(rng.choice(p) for p in per_layer) for _ in range(300)),
            # every member order of every layer at least once
            (tuple((p[0][0], m) if j == i else p[0] for j, p in enumerate(per_layer))
             for i, l in enumerate(family["chain"]) for m in [list(q) for q in itertools.permutations(l.get("members", []))]))
    for combo in combos:
        yield dict(family, chain=[dict(l, funs=list(fs), members=list(ms)) for l, (fs, ms) in zip(family["chain"], combo)])


def history_variants(family):
    """the same family with other registration histories: none at all, and the heaviest one everywhere"""
    def with_hist(h):
        return dict(family, chain=[dict(l, funs=[dict(f, history=list(h(f))) for f in l["funs"]]) for l in family["chain"]])
    yield "no history", with_hist(lambda f: [])
    yield "another convention first, derived definitions modified", with_hist(
        lambda f: ["pre_python", "pre_strip", "post_strip", "post_insert", "post_clone"])


def order_outcomes(rng, family, call):
    """-> {canonical outcome: one order / registration history producing it}"""
    seen = {}

    def note(fam, label):
        census = []
        try:
            ctx, _ = build_chain(fam, census)
        except BadFamily:
            return
        obs, log = run_call(fam, call, ctx)
        shared = shared_parameters(census)
        key = repr((obs, log, bool(shared)))
        if key not in seen:
            seen[key] = {"order": [[f["fid"] for f in l["funs"]] for l in fam["chain"]],
                         "members": [l.get("members") for l in fam["chain"]], "history": label,
                         "outcome": obs, "log": log, "shared_parameter_objects": shared[:4]}

    for fam in layer_orders(rng, family):
        note(fam, "as generated")
    for label, fam in history_variants(family):
        note(fam, label)
    return seen


# ---- the correspondence shared by C05 and C06 --------------------------------------------------------
def correspond(run, pairs, what_violation, what_prop, judge=None):
    """pairs: iterable of (family, call).  Runs the real runner, evaluates Model/Resolution.call inside Coq
    on the same input and reports disagreements."""
    cases, meta = [], []
    for family, call in pairs:
        census = []
        try:
            ctx, fds = build_chain(family, census)
            if any(f.get("history") for l in family["chain"] for f in l["funs"]):
                # the model is fed with what the definitions are on their own (no history)
                fds = derive_all(family, None, False)
        except BadFamily:
            run.cov["skipped"] += 1
            continue
        obs, log = run_call(family, call, ctx)
        shared = shared_parameters(census)
        if shared:
            run.fail("violation", SHARED_WHAT, {"family": family, "call": call, "shared_parameter_objects": shared[:6],
                                                "required": "every FunctionDefinition owns its ParameterDefinition objects"})
            continue
        feats = family_features(family, call, obs)
        run.case((family["chain"], call), nontrivial=len(feats) >= 3)
        run.count("outcome:" + (obs[1] if obs[0] == "err" else obs[0]))
        for f in feats:
            run.count("feature:" + f)
        if len(meta) % 211 == 0:
            run.sample({"family": family, "call": call, "observed": obs, "log": log})
        if not obs_ok_for_model(obs):
            run.fail("violation", "resolution raised an exception outside the documented error set, or a payload received a foreign object",
                     {"family": family, "call": call, "observed": obs, "log": log})
            continue
        text = call_text(call, family.get("fname", "f"))
        if text is not None:
            r2 = run_call_text(family, call, ctx, text)
            if r2 is not None:
                run.count("route:yaql-text")
                if [r2[0], r2[1]] != [obs, log]:
                    run.fail("violation", "the call written as YAQL text resolves differently from the same call made through the API",
                             {"family": family, "call": call, "text": text, "observed": obs, "log": log,
                              "observed_text_route": r2[0], "log_text_route": r2[1]})
                    continue
        cases.append(case_term(family, fds, call, obs, log))
        meta.append((family, call, obs, log))
    bad = run.coq_mismatches(HEADER, "case", "case_ok", cases, shard=250)
    cap = 12 if judge is not None else 40
    if len(bad) > cap:
        run.note("%d disagreeing cases; the first %d are examined" % (len(bad), cap))
    for i in bad[:cap]:
        family, call, obs, log = meta[i]
        sp = spec_resolve(family, call)
        data = {"family": family, "call": call, "observed": obs, "log": log,
                "required_by_documented_rules": sp[0], "required_log": sp[1]}
        if judge is not None:
            verdict = judge(family, call, obs, log, sp)
        else:
            verdict = what_violation(obs, log, sp) if [obs, log] != [sp[0], sp[1]] else None
        if isinstance(verdict, tuple):          # (kind, what, extra data) decided by the property module
            data.update(verdict[2])
            run.fail(verdict[0], verdict[1], data)
        elif verdict is not None:
            run.fail("violation", verdict, data)
        else:
            run.fail("mismatch", "Model/Resolution.v and runner.py disagree on a call (the python rules oracle agrees with runner.py)", data)
    return len(cases)


def describe(obs, log, sp):
    if obs[0] == "err" and sp[0][0] == "chosen":
        return "resolution raised %s where the documented rules select one overload" % obs[1]
    if obs[0] == "chosen" and sp[0][0] == "err":
        return "resolution ran an overload where the documented rules require %s" % sp[0][1]
    if obs[0] == "err" and sp[0][0] == "err" and obs[1] != sp[0][1]:
        return "resolution raised %s where the documented rules require %s" % (obs[1], sp[0][1])
    if obs[0] == "chosen" and sp[0][0] == "chosen" and obs[1] != sp[0][1]:
        return "resolution ran a different overload than the documented rules select"
    if obs == sp[0] and log != sp[1]:
        return "arguments were not evaluated exactly once in call order (evaluation log differs)"
    return "the overload ran with different bound arguments than the documented rules prescribe"


def load_corpus(pid):
    import json
    import os
    path = os.path.join(os.path.dirname(os.path.dirname(os.path.abspath(__file__))), "corpus", "%s.json" % pid)
    if not os.path.exists(path):
        return []
    return [(e["family"], e["call"]) for e in json.load(open(path))]
