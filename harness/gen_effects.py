"""Gen/Effects.v: which registered payloads apply a host-touching operation to a value that
may be an arbitrary host object.

For every FunctionDefinition registered by yaql.create_context() (all layers) the payload's
source is parsed (ast) and a small inter-procedural taint analysis is run:

  sources   a parameter is HOST when the LIVE `value_type.check` accepts a plain canary object
            (or accepts it only once it carries yaqlization settings: `gated` origin); it is
            CONT (a yaql-typed container whose elements may be hosts) when it rejects the canary
            but accepts a list, tuple, dict, set or iterator holding one; `scalar` when it accepts
            only strings / numbers; lazy parameters (lambdas, expressions, mapping rules) and
            hidden (injected Context / Engine / Delegate) parameters are `lazy`: their
            attributes / items are yaql's own objects, calling them yields a value
  flow      assignments, for-targets, comprehension targets, tuple shapes, locally built
            containers (with the taint of their elements), isinstance / utils.is_* guards
            (narrow a value to builtin / yaql data inside the guarded block), nested functions,
            lambdas and classes, calls into functions and classes of the yaql package (followed,
            depth-limited, per payload), a table of protocol-only builtins / stdlib modules;
            anything else called with a tainted argument is itself a row (fail-closed)
  sinks     on a HOST value: attribute access, getattr/hasattr/setattr/delattr/vars/dir,
            subscript (load, store, delete), call; on HOST or CONT arguments: `.format(` /
            `.format_map(` with a non-constant or field-navigating template, `%` with a
            possibly-string left operand, f-strings; any use of operator.attrgetter /
            itemgetter / methodcaller; unknown callees; sources that cannot be read or constructs
            that cannot be interpreted (scan_failed)
  assumed   a value returned by yaql's own machinery (a Delegate / Context call such as
            to_list(collection) or context(name, engine, receiver)) is yaql data: iterating,
            subscripting or calling it is not counted (attribute access on it is).  The canary
            sweep of harness/c07_sweep.py exercises these paths dynamically.

Every sink is a row.  For rows in the Yaqlized-typed overloads the scanner also emits whether
the operation is dominated (same top-level statement list, earlier statement) by a
`_validate_name(<unmodified parameter value>, settings)` call and takes its member name from
that value (through _remap_name / constant subscripts) only; operations on a value that was
itself obtained through such a validated access are `subject_member`.  The module is trusted
(it decides what the finite theorem is about); it is deliberately conservative: an unknown
situation produces a row, and rows outside the gated overloads make the obligation
C07_only_gated_payloads_touch_hosts fail."""
import ast
import inspect
import string
import sys
import textwrap
import types

import gal

OUTPUT = "Effects.v"

CLEAN, CONT, HOST = 0, 1, 2
MAX_DEPTH = 6


class T(object):
    """taint: level, origin parameters;
       member  obtained through a validated access
       lazy    a yaql expression / lambda / injected object (attribute, subscript, iteration stay lazy; a call
               yields a value); hidden: an injected Context / Engine / Delegate (subscript yields context data)
       deleg   a value returned by yaql machinery (delegate call): call / subscript / iteration are not counted
       scalar  a parameter whose type accepts only strings / numbers: methods cannot store or return hosts
       elems   taint of the elements of a locally constructed container (None: unknown -> HOST)"""
    __slots__ = ("level", "origins", "member", "lazy", "hidden", "deleg", "scalar", "elems", "shape")

    def __init__(self, level=CLEAN, origins=frozenset(), member=False, lazy=False, hidden=False, deleg=False,
                 scalar=False, elems=None, shape=None):
        self.level, self.origins, self.member = level, frozenset(origins), member
        self.lazy, self.hidden, self.deleg, self.scalar, self.elems = lazy, hidden, deleg, scalar, elems
        self.shape = shape       # element taints of a fixed-size tuple literal

    def key(self):
        return (self.level, tuple(sorted(self.origins)), self.member, self.lazy, self.hidden, self.deleg, self.scalar,
                self.elems.key() if self.elems is not None else None,
                tuple(x.key() for x in self.shape) if self.shape is not None else None)


NONE = T()
SCALAR = T(scalar=True)


def join(*ts):
    ts = [t for t in ts if t is not None]
    real = [t for t in ts if t.level > CLEAN]
    if not real:
        return SCALAR if ts and all(t.scalar for t in ts) else NONE
    lvl = max(t.level for t in real)
    org = frozenset().union(*[t.origins for t in real])
    top = [t for t in real if t.level == lvl]
    el = None
    lazy = all(t.lazy for t in real)
    if not lazy and all(t.elems is not None or t.lazy for t in real):
        el = join(*[t.elems if t.elems is not None else elem(t) for t in real])
    shape = None
    if len(set(len(t.shape) if t.shape is not None else -1 for t in ts)) == 1 and ts[0].shape is not None:
        shape = [join(*[t.shape[i] for t in ts]) for i in range(len(ts[0].shape))]
    return T(lvl, org, all(t.member for t in real), lazy=lazy, hidden=all(t.hidden for t in real),
             deleg=all(t.deleg for t in top), elems=None if lazy else el, shape=shape)


def elem(t):
    if t.level == CLEAN:
        return NONE
    if t.lazy:
        return T(CONT, t.origins, t.member, lazy=True, hidden=False)
    if t.elems is not None:
        return t.elems
    return T(HOST, t.origins, t.member, deleg=t.deleg)


def container(t):
    """a locally built container whose elements have taint t"""
    if t.level == CLEAN:
        return NONE
    return T(CONT, t.origins, t.member, elems=t)


# builtins / stdlib callables that use only implicit protocol slots of their arguments
# (iteration, len, hash, ==, ordering, str/repr, truth); result level: 'elem' -> element of an
# argument, 'same' -> container-preserving, 'clean' -> plain data
SAFE_BUILTINS = {
    "len": "clean", "iter": "same", "next": "elem", "str": "clean", "repr": "clean", "bool": "clean", "hash": "clean",
    "sorted": "same", "isinstance": "clean", "issubclass": "clean", "id": "clean", "list": "same", "tuple": "same",
    "dict": "same", "set": "same", "frozenset": "same", "enumerate": "same", "zip": "same", "map": "same",
    "filter": "same", "reversed": "same", "sum": "elem", "min": "elem", "max": "elem", "any": "clean", "all": "clean",
    "abs": "elem", "int": "clean", "float": "clean", "round": "elem", "divmod": "elem", "pow": "elem",
    "callable": "clean", "range": "clean", "slice": "clean", "chr": "clean", "ord": "clean", "type": "type",
    "format": "clean", "print": "clean", "super": "clean", "object": "clean", "bytes": "clean", "complex": "clean",
    "ValueError": "clean", "TypeError": "clean", "KeyError": "clean", "IndexError": "clean", "StopIteration": "clean",
    "AttributeError": "clean", "Exception": "clean", "NotImplementedError": "clean", "RuntimeError": "clean",
}
SAFE_MODULES = ("itertools", "functools", "collections", "operator", "re", "math", "random", "time", "datetime",
                "dateutil", "_collections", "_functools", "_operator", "builtins", "string", "sys", "abc",
                "collections.abc", "_random", "calendar", "_datetime", "_thread", "threading")
DANGEROUS = {"getattr", "hasattr", "setattr", "delattr", "vars", "dir", "eval", "exec", "compile", "__import__",
             "globals", "locals"}
OPERATOR_GETTERS = {"attrgetter", "itemgetter", "methodcaller"}
CONTAINER_METHODS = {"items", "keys", "values", "copy", "union", "intersection", "difference",
                     "symmetric_difference", "split", "rsplit", "splitlines", "partition", "rpartition"}


def safe_template(text, percent=False):
    """a constant template that only interpolates whole arguments"""
    if not isinstance(text, str):
        return False
    if percent:
        return "%(" not in text
    try:
        for _, field, spec, _ in string.Formatter().parse(text):
            if field is None:
                continue
            if "." in field or "[" in field:
                return False
            if spec and "{" in spec:
                return False
    except ValueError:
        return False
    return True


class Scanner(object):
    def __init__(self):
        self.rows = []          # dicts
        self.cache = {}
        self.cur = None         # current payload info

    # ---- source access -------------------------------------------------
    def fn_ast(self, fn):
        lines, start = inspect.getsourcelines(fn)
        src = textwrap.dedent("".join(lines))
        tree = ast.parse(src)
        if fn.__name__ == "<lambda>":
            cands = [n for n in ast.walk(tree) if isinstance(n, ast.Lambda)]
            want = list(fn.__code__.co_varnames[:fn.__code__.co_argcount])
            cands = [n for n in cands if [a.arg for a in n.args.args] == want]
            if len(cands) != 1:
                raise ValueError("ambiguous lambda")
            return cands[0]
        for n in ast.walk(tree):
            if isinstance(n, (ast.FunctionDef, ast.AsyncFunctionDef)) and n.name == fn.__name__:
                return n
        raise ValueError("definition not found")

    def resolve(self, node, fn, local_names):
        """statically resolve a Name / dotted Attribute to a Python object through the function's
        closure, globals and builtins; (found, obj)"""
        if isinstance(node, ast.Name):
            if node.id in local_names:
                return False, None
            if fn.__closure__ and node.id in fn.__code__.co_freevars:
                try:
                    return True, fn.__closure__[fn.__code__.co_freevars.index(node.id)].cell_contents
                except ValueError:
                    return False, None
            if node.id in fn.__globals__:
                return True, fn.__globals__[node.id]
            b = fn.__globals__.get("__builtins__")
            b = b if isinstance(b, dict) else vars(b)
            if node.id in b:
                return True, b[node.id]
            return False, None
        if isinstance(node, ast.Attribute):
            ok, base = self.resolve(node.value, fn, local_names)
            if ok and isinstance(base, (types.ModuleType, type)):
                try:
                    return True, inspect.getattr_static(base, node.attr)
                except AttributeError:
                    return False, None
        return False, None

    # ---- rows ------------------------------------------------------------
    def row(self, op, detail, taint, node, fr, validated=False):
        key = (self.cur["id"], op, detail, fr.fn.__module__, fr.fn.__qualname__, getattr(node, "lineno", 0),
               getattr(node, "col_offset", 0))
        if key in self.cur["seen"]:
            return
        self.cur["seen"].add(key)
        origins = sorted(taint.origins) if taint is not None else []
        gated = bool(origins) and all(self.cur["gated"].get(o, False) for o in origins)
        self.rows.append({
            "layer": self.cur["layer"], "fn": self.cur["name"], "payload": self.cur["payload"],
            "op": op, "detail": detail, "where": "%s.%s:%d" % (fr.fn.__module__, fr.fn.__qualname__,
                                                                 fr.first + getattr(node, "lineno", 1) - 1),
            "origins": origins, "origin_gated": gated, "in_gated_overload": self.cur["has_gated"],
            "subject_member": bool(taint is not None and taint.member),
            "validated": bool(validated or (taint is not None and taint.member)),
        })

    # ---- analysis of one function -----------------------------------------
    def analyze(self, fn, args, kwargs, depth, top=False):
        """args: list of T for positional arguments; kwargs: {name: T}.  Returns T of the result."""
        fn = inspect.unwrap(fn) if hasattr(fn, "__wrapped__") else fn
        key = (fn, tuple(a.key() for a in args), tuple(sorted((k, v.key()) for k, v in kwargs.items())))
        if not top and key in self.cache:
            return self.cache[key]
        if depth > MAX_DEPTH:
            t = join(*(list(args) + list(kwargs.values())))
            if t.level > CLEAN:
                self.rows_failed("call depth exceeded at %s" % fn.__qualname__, t)
            return t
        self.cache[key] = join(*(list(args) + list(kwargs.values())))   # recursion guard
        try:
            node = self.fn_ast(fn)
        except Exception as e:
            t = join(*(list(args) + list(kwargs.values())))
            if top or t.level > CLEAN:
                self.rows_failed("source of %s.%s unavailable: %s" % (fn.__module__, fn.__qualname__, type(e).__name__), t)
            return t
        fr = Frame(self, fn, node, depth, top)
        fr.bind(args, kwargs)
        res = fr.run()
        self.cache[key] = res
        return res

    def rows_failed(self, detail, taint):
        class N(object):
            lineno = 0
            col_offset = 0
        fake = types.SimpleNamespace(fn=types.SimpleNamespace(__module__="?", __qualname__="?"), first=0)
        self.row("scan_failed", detail, taint, N, fake)


class Frame(object):
    def __init__(self, sc, fn, node, depth, top):
        self.sc, self.fn, self.node, self.depth, self.top = sc, fn, node, depth, top
        self.env = {}
        self.first = fn.__code__.co_firstlineno
        self.locals = set()
        self.ret = NONE
        self.emit = False
        self.assigns = {}       # name -> [value expr] (top frame: provenance)
        self.stmt_index = None
        self.validations = []   # (top-level index, expr)
        self.first_assign = {}  # name -> first top-level index at which it is (re)assigned
        self.localfuncs = {}    # nested def name -> node
        self.narrow = [set()]   # stack of names known (isinstance / is_sequence ...) to be yaql / builtin data
        self.self_names = set()

    # ---- parameters --------------------------------------------------
    def collect_locals(self):
        self.params = set(self.env)
        self.locals = set(self.env)
        for n in ast.walk(self.node):
            if isinstance(n, ast.Name) and isinstance(n.ctx, (ast.Store, ast.Del)):
                self.locals.add(n.id)
            elif isinstance(n, (ast.FunctionDef, ast.ClassDef)) and n is not self.node:
                self.locals.add(n.name)
            elif isinstance(n, ast.arg):
                self.locals.add(n.arg)

    def bind(self, args, kwargs):
        a = self.node.args
        names = [x.arg for x in getattr(a, "posonlyargs", [])] + [x.arg for x in a.args]
        for i, n in enumerate(names):
            self.env[n] = args[i] if i < len(args) else kwargs.get(n, NONE)
        extra = args[len(names):]
        if a.vararg:
            self.env[a.vararg.arg] = container(join(*extra)) if extra else NONE
        for x in a.kwonlyargs:
            self.env[x.arg] = kwargs.get(x.arg, NONE)
        if a.kwarg:
            rest = [v for k, v in kwargs.items() if k not in names and k not in [x.arg for x in a.kwonlyargs]]
            self.env[a.kwarg.arg] = container(join(*rest)) if rest else NONE
        self.collect_locals()

    def bind_payload(self, taints, var_t, kw_t):
        a = self.node.args
        for x in list(getattr(a, "posonlyargs", [])) + list(a.args) + list(a.kwonlyargs):
            self.env[x.arg] = taints.get(x.arg, NONE)
        if a.vararg:
            self.env[a.vararg.arg] = var_t
        if a.kwarg:
            self.env[a.kwarg.arg] = kw_t
        self.collect_locals()

    # ---- driver ------------------------------------------------------
    def run(self):
        body = self.node.body if isinstance(self.node.body, list) else [ast.Return(value=self.node.body)]
        if self.top:
            for i, st in enumerate(body):
                for n in ast.walk(st):
                    if isinstance(n, ast.Name) and isinstance(n.ctx, ast.Store):
                        self.first_assign.setdefault(n.id, i)
                for tgt, val in simple_assigns(st):
                    self.assigns.setdefault(tgt, []).append(val)
                if isinstance(st, ast.Expr) and isinstance(st.value, ast.Call):
                    ok, obj = self.sc.resolve(st.value.func, self.fn, self.locals)
                    if ok and is_validate_name(obj) and st.value.args:
                        self.validations.append((i, st.value.args[0]))
        for rnd in range(4):
            before = dict((k, v.key()) for k, v in self.env.items())
            self.emit = False
            self.walk_body(body)
            if before == dict((k, v.key()) for k, v in self.env.items()):
                break
        self.emit = True
        self.walk_body(body)
        return self.ret

    def walk_body(self, body):
        self.narrow = [set()]
        for i, st in enumerate(body):
            if self.depth_in_blocks() == 0:
                self.stmt_index = i
            self.stmt(st)

    def depth_in_blocks(self):
        return len(self.narrow) - 1

    def setvar(self, name, t):
        self.env[name] = join(self.env.get(name, NONE), t)

    def assign(self, target, t):
        if isinstance(target, ast.Name):
            self.setvar(target.id, t)
            for s in self.narrow:
                s.discard(target.id) if t.level == HOST and not t.deleg else None
        elif isinstance(target, (ast.Tuple, ast.List)):
            if t.shape is not None and len(t.shape) == len(target.elts) and not any(isinstance(e, ast.Starred) for e in target.elts):
                for e, te in zip(target.elts, t.shape):
                    self.assign(e, te)
            else:
                for e in target.elts:
                    self.assign(e, elem(t))
        elif isinstance(target, ast.Starred):
            self.assign(target.value, t)
        elif isinstance(target, ast.Subscript):
            base = self.expr(target.value)
            self.sink_subject("subscript_store", "[...]=", base, target)
            self.expr(target.slice)
            if isinstance(target.value, ast.Name) and t.level and not base.lazy:
                self.setvar(target.value.id, container(t))
        elif isinstance(target, ast.Attribute):
            base = self.expr(target.value)
            self.sink_subject("setattr", "." + target.attr + "=", base, target)

    # ---- statements ----------------------------------------------------
    def stmt(self, st):
        m = getattr(self, "s_" + type(st).__name__, None)
        if m is None:
            self.fail("statement %s" % type(st).__name__, st)
            return
        m(st)

    def block(self, sts, extra=()):
        self.narrow.append(set(extra))
        for s in sts:
            self.stmt(s)
        self.narrow.pop()

    def s_Expr(self, st):
        self.expr(st.value)

    def s_Return(self, st):
        if st.value is not None:
            self.ret = join(self.ret, self.expr(st.value))

    def s_Assign(self, st):
        t = self.expr(st.value)
        for tg in st.targets:
            self.assign(tg, t)

    def s_AugAssign(self, st):
        t = join(self.expr(st.value), self.expr(load(st.target)))
        if isinstance(st.op, ast.Mod):
            self.percent(load(st.target), st.value, st)
        self.assign(st.target, t)

    def s_AnnAssign(self, st):
        if st.value is not None:
            self.assign(st.target, self.expr(st.value))

    def s_For(self, st):
        self.assign(st.target, elem(self.expr(st.iter)))
        self.block(st.body)
        self.block(st.orelse)

    def s_While(self, st):
        self.expr(st.test)
        self.block(st.body, self.guards(st.test, True))
        self.block(st.orelse)

    def terminates(self, sts):
        return bool(sts) and isinstance(sts[-1], (ast.Raise, ast.Return, ast.Continue, ast.Break))

    def s_If(self, st):
        self.expr(st.test)
        pos, neg = self.guards(st.test, True), self.guards(st.test, False)
        self.block(st.body, pos)
        self.block(st.orelse, neg)
        if self.terminates(st.body):
            self.narrow[-1] |= neg
        if st.orelse and self.terminates(st.orelse):
            self.narrow[-1] |= pos

    def guards(self, test, positive):
        """names that the test establishes to be builtin / yaql data (not an arbitrary host object)"""
        if isinstance(test, ast.UnaryOp) and isinstance(test.op, ast.Not):
            return self.guards(test.operand, not positive)
        if isinstance(test, ast.BoolOp):
            if (isinstance(test.op, ast.And) and positive) or (isinstance(test.op, ast.Or) and not positive):
                out = set()
                for v in test.values:
                    out |= self.guards(v, positive)
                return out
            return set()
        if positive and isinstance(test, ast.Call) and test.args and isinstance(test.args[0], ast.Name):
            ok, obj = self.sc.resolve(test.func, self.fn, self.locals)
            if not ok:
                return set()
            if obj is isinstance and len(test.args) == 2 and self.known_types(test.args[1]):
                return {test.args[0].id}
            if isinstance(obj, types.FunctionType) and obj.__module__ == "yaql.language.utils" and obj.__name__ in (
                    "is_sequence", "is_iterable", "is_iterator", "is_mutable"):
                return {test.args[0].id}
        return set()

    def known_types(self, node):
        if isinstance(node, ast.Tuple):
            return all(self.known_types(e) for e in node.elts)
        ok, obj = self.sc.resolve(node, self.fn, self.locals)
        if ok and isinstance(obj, tuple):
            return all(isinstance(o, type) and o is not object and known_module(o) for o in obj)
        return ok and isinstance(obj, type) and obj is not object and known_module(obj)

    def s_With(self, st):
        for it in st.items:
            t = self.expr(it.context_expr)
            if it.optional_vars is not None:
                self.assign(it.optional_vars, t)
        self.block(st.body)

    def s_Raise(self, st):
        if st.exc is not None:
            self.expr(st.exc)
        if st.cause is not None:
            self.expr(st.cause)

    def s_Try(self, st):
        self.block(st.body)
        for h in st.handlers:
            if h.type is not None:
                self.expr(h.type)
            self.block(h.body)
        self.block(st.orelse)
        self.block(st.finalbody)

    def s_Assert(self, st):
        self.expr(st.test)

    def s_Delete(self, st):
        for tg in st.targets:
            if isinstance(tg, ast.Subscript):
                self.sink_subject("subscript_del", "del [...]", self.expr(tg.value), tg)
                self.expr(tg.slice)
            elif isinstance(tg, ast.Attribute):
                self.sink_subject("delattr", "del ." + tg.attr, self.expr(tg.value), tg)

    def s_Pass(self, st):
        pass

    s_Break = s_Continue = s_Global = s_Nonlocal = s_Import = s_ImportFrom = s_Pass

    def s_FunctionDef(self, st):
        self.localfuncs[st.name] = st

    def s_ClassDef(self, st):
        """a local class: its methods run with `self` as an internal object; other parameters conservative"""
        for b in st.body:
            if isinstance(b, ast.FunctionDef):
                names = [a.arg for a in b.args.args]
                if names:
                    self.self_names.add(names[0])
                self.nested(b, b.args, b.body, None, skip_first=True)
            elif isinstance(b, (ast.Assign, ast.Expr, ast.Pass)):
                self.stmt(b)
            else:
                self.fail("class body %s" % type(b).__name__, b)

    def conservative(self):
        allt = join(*[v for v in self.env.values() if not (v.lazy and v.hidden)])
        return T(HOST, allt.origins, False) if allt.level else NONE

    def nested(self, node, args, body, ptaints, skip_first=False):
        """a local function / lambda analysed in place; ptaints: list of T for its positional parameters or
        None (unknown caller: anything the enclosing frame holds)"""
        names = [a.arg for a in getattr(args, "posonlyargs", [])] + [a.arg for a in args.args]
        others = [a.arg for a in args.kwonlyargs] + ([args.vararg.arg] if args.vararg else []) + \
                 ([args.kwarg.arg] if args.kwarg else [])
        cons = self.conservative()
        saved = {}
        for i, n in enumerate(names):
            saved[n] = self.env.get(n)
            if skip_first and i == 0:
                self.env[n] = T(CONT, (), False, lazy=True, hidden=True)
            elif ptaints is not None and i < len(ptaints):
                self.env[n] = ptaints[i]
            elif ptaints is not None and i >= len(ptaints) and len(args.defaults) >= len(names) - i:
                self.env[n] = NONE
            else:
                self.env[n] = cons
        for n in others:
            saved[n] = self.env.get(n)
            self.env[n] = cons
        for d in list(args.defaults) + [d for d in args.kw_defaults if d is not None]:
            self.expr(d)
        ret_before = self.ret
        self.ret = NONE
        self.narrow.append(set())
        if isinstance(body, list):
            for s in body:
                self.stmt(s)
            res = self.ret
        else:
            res = self.expr(body)
        self.narrow.pop()
        self.ret = ret_before
        for n in names + others:
            if saved[n] is None:
                self.env.pop(n, None)
            else:
                self.env[n] = saved[n]
        return res

    def call_local(self, name_or_node, argts):
        node = self.localfuncs.get(name_or_node) if isinstance(name_or_node, str) else name_or_node
        active = self.__dict__.setdefault("_active", [])
        if node in active or len(active) > 4:
            return join(*(argts or [self.conservative()]))
        active.append(node)
        try:
            return self.nested(node, node.args, node.body, argts)
        finally:
            active.pop()

    # ---- sinks ---------------------------------------------------------
    def fail(self, what, node):
        allt = join(*[v for v in self.env.values()])
        if self.emit and (allt.level or self.top):
            self.sc.row("scan_failed", "cannot interpret %s" % what, allt if allt.level else None, node, self)

    def validated_for(self, name_expr):
        """top frame only: some earlier top-level `_validate_name(E, ...)` with E an unmodified
        parameter value, and the member name used here derives from E (and the settings) only"""
        if not self.top or self.depth_in_blocks() != 0:
            return False
        for j, e in self.validations:
            if j >= self.stmt_index:
                continue
            root = e
            while isinstance(root, ast.Attribute):
                root = root.value
            if not isinstance(root, ast.Name) or root.id not in self.params:
                continue
            if self.first_assign.get(root.id, 10 ** 9) < j:
                continue
            if name_expr is None:
                return True
            leafs = self.prov(name_expr, set())
            leafs.discard("settings")
            if leafs and leafs <= {ast.dump(e)}:
                return True
        return False

    def prov(self, e, seen):
        if isinstance(e, ast.Constant):
            return set()
        if isinstance(e, ast.Name):
            out = set()
            if e.id in self.params:
                out.add(ast.dump(ast.Name(id=e.id, ctx=ast.Load())))
            if e.id in seen:
                return out
            seen = seen | {e.id}
            for v in self.assigns.get(e.id, []):
                out |= self.prov(v, seen)
            if not out:
                out.add("other")
            return out
        if isinstance(e, ast.Attribute):
            return {ast.dump(load(e))}
        if isinstance(e, ast.Subscript) and isinstance(e.slice, ast.Constant):
            return self.prov(e.value, seen)
        if isinstance(e, ast.Call):
            ok, obj = self.sc.resolve(e.func, self.fn, self.locals)
            if ok and getattr(obj, "__name__", "") == "_remap_name" and len(e.args) == 2:
                return self.prov(e.args[0], seen) | {"settings"}
            if ok and getattr(obj, "__name__", "") == "get_yaqlization_settings":
                return {"settings"}
        return {"other"}

    def is_host(self, t):
        return t.level == HOST and not t.lazy

    def sink_subject(self, op, detail, t, node, name_expr=None):
        if not self.is_host(t) or not self.emit:
            return
        if t.deleg and op in ("subscript", "subscript_store", "subscript_del", "call"):
            return
        val = t.member or (name_expr is not None and self.validated_for(name_expr))
        self.sc.row(op, detail, t, node, self, validated=val)

    def percent(self, left, right, node):
        lt, rt = self.expr(left), self.expr(right)
        if lt.level == CLEAN and rt.level == CLEAN:
            return
        if isinstance(left, ast.Constant):
            if isinstance(left.value, str) and safe_template(left.value, percent=True):
                return
            if not isinstance(left.value, str):
                return
        if lt.scalar and rt.scalar:
            return
        if self.emit:
            self.sc.row("percent", "% formatting", join(lt, rt), node, self)

    # ---- expressions -----------------------------------------------------
    def expr(self, e):
        m = getattr(self, "e_" + type(e).__name__, None)
        if m is None:
            self.fail("expression %s" % type(e).__name__, e)
            return join(*[self.expr(c) for c in ast.iter_child_nodes(e) if isinstance(c, ast.expr)])
        return m(e)

    def e_Constant(self, e):
        return SCALAR

    def e_Name(self, e):
        if e.id in OPERATOR_GETTERS and self.emit:
            self.sc.row("operator_getter", e.id, join(*self.env.values()), e, self)
        if e.id in self.localfuncs and e.id not in self.env:
            # a local function used as a value: unknown caller
            res = self.call_local(e.id, None)
            return T(CONT, res.origins, res.member, lazy=True) if res.level else NONE
        t = self.env.get(e.id, NONE)
        if t.level == HOST and not t.lazy and any(e.id in s for s in self.narrow):
            return T(CONT, t.origins, t.member)
        return t

    def e_Attribute(self, e):
        if e.attr in OPERATOR_GETTERS and self.emit:
            self.sc.row("operator_getter", e.attr, join(*self.env.values()), e, self)
        t = self.expr(e.value)
        if t.lazy:
            return T(CONT, t.origins, t.member, lazy=True, hidden=t.hidden)
        if t.level == HOST:
            if e.attr == "__dict__":
                self.sink_subject("vars", ".__dict__", t, e)
            else:
                self.sink_subject("attr", "." + e.attr, t, e)
            return T(HOST, t.origins, t.member)
        if t.level == CONT:
            return T(CONT, t.origins, t.member)
        return SCALAR if t.scalar else NONE

    def e_Subscript(self, e):
        t = self.expr(e.value)
        self.expr(e.slice)
        if t.lazy:
            if t.hidden:
                return T(HOST, t.origins, False)          # context data
            return T(CONT, t.origins, t.member, lazy=True)
        if t.level == HOST:
            if t.deleg:
                return T(HOST, t.origins, t.member)
            val = self.validated_for(e.slice)
            if self.emit:
                self.sc.row("subscript", "[...]", t, e, self, validated=val or t.member)
            return T(HOST, t.origins, t.member or val)
        if isinstance(e.slice, ast.Slice):
            return t
        return elem(t)

    def e_Slice(self, e):
        return join(*[self.expr(x) for x in (e.lower, e.upper, e.step) if x is not None])

    def e_Starred(self, e):
        return self.expr(e.value)

    def e_Tuple(self, e):
        parts = []
        for x in e.elts:
            if isinstance(x, ast.Starred):
                parts.append(elem(self.expr(x.value)))
            else:
                parts.append(self.expr(x))
        t = container(join(*parts))
        if isinstance(e, ast.Tuple) and not any(isinstance(x, ast.Starred) for x in e.elts):
            t = T(t.level, t.origins, t.member, elems=t.elems, shape=parts)
        return t

    def e_List(self, e):
        return container(join(*[elem(self.expr(x.value)) if isinstance(x, ast.Starred) else self.expr(x) for x in e.elts]))

    e_Set = e_List

    def e_Dict(self, e):
        parts = []
        for k, v in zip(e.keys, e.values):
            if k is None:
                parts.append(elem(self.expr(v)))
            else:
                parts += [self.expr(k), self.expr(v)]
        return container(join(*parts))

    def e_BinOp(self, e):
        if isinstance(e.op, ast.Mod):
            self.percent(e.left, e.right, e)
        return join(self.expr(e.left), self.expr(e.right))

    def e_UnaryOp(self, e):
        return self.expr(e.operand)

    def e_BoolOp(self, e):
        out, extra = [], set()
        for v in e.values:
            self.narrow.append(set(extra))
            out.append(self.expr(v))
            self.narrow.pop()
            extra |= self.guards(v, isinstance(e.op, ast.And))
        return join(*out)

    def e_Compare(self, e):
        self.expr(e.left)
        for c in e.comparators:
            self.expr(c)
        return NONE

    def e_IfExp(self, e):
        self.expr(e.test)
        self.narrow.append(self.guards(e.test, True))
        a = self.expr(e.body)
        self.narrow.pop()
        self.narrow.append(self.guards(e.test, False))
        b = self.expr(e.orelse)
        self.narrow.pop()
        return join(a, b)

    def e_NamedExpr(self, e):
        t = self.expr(e.value)
        self.assign(e.target, t)
        return t

    def e_Lambda(self, e):
        # a lambda used as a plain value (not as an argument of a call): unknown caller
        res = self.nested(e, e.args, e.body, None)
        return T(CONT, res.origins, res.member, lazy=True) if res.level else NONE

    def e_JoinedStr(self, e):
        for v in e.values:
            if isinstance(v, ast.FormattedValue):
                t = self.expr(v.value)
                if t.level and self.emit:
                    self.sc.row("fstring", "f-string interpolation", t, e, self)
                if v.format_spec is not None:
                    self.expr(v.format_spec)
        return SCALAR

    def e_FormattedValue(self, e):
        return self.expr(e.value)

    def comp(self, e, parts):
        self.narrow.append(set())
        for g in e.generators:
            self.assign(g.target, elem(self.expr(g.iter)))
            for c in g.ifs:
                self.expr(c)
                self.narrow[-1] |= self.guards(c, True)
        t = join(*[self.expr(p) for p in parts])
        self.narrow.pop()
        return container(t)

    def e_ListComp(self, e):
        return self.comp(e, [e.elt])

    e_SetComp = e_GeneratorExp = e_ListComp

    def e_DictComp(self, e):
        return self.comp(e, [e.key, e.value])

    def e_Yield(self, e):
        if e.value is not None:
            self.ret = join(self.ret, container(self.expr(e.value)))
        return NONE

    def e_YieldFrom(self, e):
        self.ret = join(self.ret, self.expr(e.value))
        return NONE

    def e_Await(self, e):
        return self.expr(e.value)

    # ---- calls -----------------------------------------------------------
    def arg_taints(self, e, receiver=None):
        """evaluate call arguments; local functions / lambdas passed as arguments are analysed with
        parameters = elements of the other arguments (map / filter / sorted(key=) / re.sub callbacks)"""
        plain, funcs = [], []
        for a in e.args:
            node = a.value if isinstance(a, ast.Starred) else a
            if isinstance(node, ast.Lambda) or (isinstance(node, ast.Name) and node.id in self.localfuncs and node.id not in self.env):
                funcs.append(("pos", None, node))
                plain.append(None)
            else:
                t = self.expr(node)
                plain.append(elem(t) if isinstance(a, ast.Starred) else t)
        kw, kwstar = {}, NONE
        for k in e.keywords:
            node = k.value
            if isinstance(node, ast.Lambda) or (isinstance(node, ast.Name) and node.id in self.localfuncs and node.id not in self.env):
                funcs.append(("kw", k.arg, node))
                continue
            t = self.expr(node)
            if k.arg is None:
                kwstar = join(kwstar, elem(t))
            else:
                kw[k.arg] = t
        others = join(*([p for p in plain if p is not None] + list(kw.values()) + [kwstar] + ([receiver] if receiver else [])))
        for kind, name, node in funcs:
            pt = elem(others) if others.level else NONE
            fnode = node if isinstance(node, ast.Lambda) else self.localfuncs[node.id]
            n = len(fnode.args.args)
            res = self.nested(fnode, fnode.args, fnode.body, [pt] * n)
            ft = T(CONT, res.origins | pt.origins, res.member, lazy=True) if (res.level or pt.level) else NONE
            if kind == "kw":
                kw[name] = ft
            else:
                plain[plain.index(None)] = ft
        return plain, kw, kwstar

    def e_Call(self, e):
        f = e.func
        ok, obj = self.sc.resolve(f, self.fn, self.locals)
        recv = None
        if not ok and isinstance(f, ast.Attribute):
            recv = self.expr(f.value)
        args, kw, kwstar = self.arg_taints(e, recv)
        star = any(isinstance(a, ast.Starred) for a in e.args)
        allargs = join(*(args + list(kw.values()) + [kwstar]))

        # ---- method call on a value -------------------------------------
        if not ok and isinstance(f, ast.Attribute):
            if f.attr in ("format", "format_map"):
                tmpl_safe = isinstance(f.value, ast.Constant) and safe_template(f.value.value)
                if (allargs.level or recv.level) and not tmpl_safe and self.emit:
                    self.sc.row("format", "." + f.attr + "(", join(allargs, recv), e, self)
                return SCALAR
            if recv.lazy:
                if recv.hidden and f.attr in INTERNAL_METHODS:
                    return T(CONT, recv.origins, False, lazy=True, hidden=True)
                tot = join(recv, allargs)
                return T(HOST, tot.origins, False, deleg=True)
            if self.is_host(recv):
                self.sink_subject("attr", "." + f.attr, recv, f)
                self.sink_subject("call", "." + f.attr + "(...)", T(HOST, recv.origins, recv.member), e)
                return T(HOST, recv.origins, recv.member)
            if recv.scalar and recv.level == CLEAN:
                return SCALAR
            # a method of a builtin / yaql container (or of a clean local object)
            if allargs.level and isinstance(f.value, ast.Name) and not recv.scalar and f.value.id not in self.params:
                self.setvar(f.value.id, container(allargs))
            tot = join(recv, allargs)
            if not tot.level:
                return NONE
            if f.attr in CONTAINER_METHODS:
                return T(CONT, tot.origins, tot.member, elems=recv.elems)
            if f.attr == "setdefault" and len(e.args) == 2 and isinstance(e.args[1], (ast.List, ast.Dict, ast.Set, ast.Tuple)):
                return args[1]        # the freshly built default (or an earlier one of the same kind)
            if f.attr in ELEMENT_METHODS:
                return elem(recv) if recv.level else NONE
            if f.attr in VOID_METHODS:
                return NONE
            if recv.level == CLEAN and f.attr in STR_METHODS:
                return SCALAR
            return T(HOST, tot.origins, tot.member)

        # ---- calling a local value ----------------------------------------
        if not ok:
            if isinstance(f, ast.Name) and f.id in self.localfuncs and f.id not in self.env:
                return self.call_local(f.id, args)
            if isinstance(f, ast.Lambda):
                return self.nested(f, f.args, f.body, args)
            ft = self.expr(f)
            if ft.lazy:
                tot = join(ft, allargs)
                return T(HOST, tot.origins, False, deleg=True)
            if self.is_host(ft):
                self.sink_subject("call", "(...)", ft, e)
                return T(HOST, ft.origins, ft.member, deleg=ft.deleg)
            tot = join(ft, allargs)
            return T(HOST, tot.origins, tot.member) if tot.level else NONE

        name = getattr(obj, "__name__", None) or type(obj).__name__
        mod = getattr(obj, "__module__", None) or ""
        if name in OPERATOR_GETTERS and mod in ("operator", "_operator"):
            if self.emit:
                self.sc.row("operator_getter", name, allargs if allargs.level else join(*self.env.values()), e, self)
            return T(CONT, allargs.origins, False) if allargs.level else NONE

        # ---- getattr family; the sanctioned read of the yaqlization attribute ------
        if obj in (getattr, hasattr, setattr, delattr) and len(e.args) >= 2:
            subj = args[0]
            okc, cval = self.const_value(e.args[1])
            if self.is_host(subj):
                if okc and cval == yaqlization_attr():
                    if self.emit:
                        self.sc.row("settings_read" if obj in (getattr, hasattr) else "settings_write",
                                    "%s(x, '%s')" % (obj.__name__, cval), subj, e, self, validated=True)
                    return NONE
                val = self.validated_for(e.args[1])
                if self.emit:
                    self.sc.row(obj.__name__, "%s(x, <name>)" % obj.__name__, subj, e, self, validated=val or subj.member)
                return T(HOST, subj.origins, subj.member or val)
            if subj.lazy or subj.level == CLEAN:
                return NONE if subj.level == CLEAN else T(CONT, subj.origins, False, lazy=True, hidden=subj.hidden)
            return T(HOST, allargs.origins, allargs.member) if allargs.level else NONE
        if name in DANGEROUS and isinstance(obj, types.BuiltinFunctionType):
            if allargs.level and self.emit:
                self.sc.row("vars" if name in ("vars", "dir") else "unknown_call", name + "(", allargs, e, self)
            return T(HOST, allargs.origins, False) if allargs.level else NONE

        # ---- python functions / classes of the yaql package: follow -----------------
        if isinstance(obj, (staticmethod, classmethod)):
            obj = obj.__func__
        if isinstance(obj, types.FunctionType) and (obj.__module__ or "").split(".")[0] == "yaql":
            pos = args
            if star or kwstar.level:
                pos = ([join(*args)] * 8) if allargs.level else args
            return self.sc.analyze(obj, pos, kw, self.depth + 1)
        if isinstance(obj, type) and (obj.__module__ or "").split(".")[0] == "yaql":
            init = inspect.getattr_static(obj, "__init__", None)
            if isinstance(init, types.FunctionType) and allargs.level:
                self.sc.analyze(init, [T(CONT, (), False, lazy=True, hidden=True)] + args, kw, self.depth + 1)
            return container(elem(allargs) if allargs.level == CONT else allargs) if allargs.level else NONE

        # ---- protocol-only builtins and stdlib modules ----------------------------------
        kind = None
        if isinstance(obj, (types.BuiltinFunctionType, type)) and mod in ("builtins", "") and name in SAFE_BUILTINS:
            kind = SAFE_BUILTINS[name]
        elif isinstance(obj, type) and issubclass(obj, BaseException):
            kind = "clean"
        elif mod.split(".")[0] in SAFE_MODULES:
            kind = "same"
        if mod == "copy":
            kind = None
        if kind is None:
            if allargs.level and self.emit:
                self.sc.row("unknown_call", "%s.%s(" % (mod, name), allargs, e, self)
            return T(HOST, allargs.origins, False) if allargs.level else NONE
        if not allargs.level:
            return SCALAR if kind == "clean" else NONE
        if kind == "clean":
            return SCALAR
        if kind == "type":
            return T(HOST, allargs.origins, allargs.member) if self.is_host(allargs) else NONE
        if kind == "elem":
            return elem(allargs)
        if allargs.lazy:
            return T(CONT, allargs.origins, allargs.member, lazy=True)
        if allargs.level == CONT:
            return T(CONT, allargs.origins, allargs.member, elems=allargs.elems)
        return T(HOST, allargs.origins, allargs.member, deleg=allargs.deleg)

    def const_value(self, node):
        if isinstance(node, ast.Constant):
            return True, node.value
        ok, obj = self.sc.resolve(node, self.fn, self.locals)
        if ok and isinstance(obj, (str, int, float, bool, type(None))):
            return True, obj
        return False, None


INTERNAL_METHODS = {"create_child_context", "register_function", "get_functions", "collect_functions",
                    "delete_function", "options", "parent"}
ELEMENT_METHODS = {"get", "pop", "popleft", "popitem", "setdefault", "__getitem__"}
VOID_METHODS = {"append", "extend", "insert", "add", "update", "remove", "discard", "clear", "sort", "reverse",
                "appendleft", "extendleft", "index", "count", "startswith", "endswith", "isdigit", "isalpha"}
STR_METHODS = {"join", "replace", "strip", "lstrip", "rstrip", "lower", "upper", "find", "rfind", "encode", "decode",
               "title", "capitalize", "zfill", "ljust", "rjust", "center", "expandtabs", "translate", "casefold",
               "swapcase", "total_seconds", "isoformat", "strftime", "utcoffset", "timestamp"}


def known_module(t):
    m = (t.__module__ or "").split(".")[0]
    return m in ("builtins", "collections", "datetime", "re", "yaql", "types", "numbers", "decimal", "_collections_abc",
                 "typing", "abc", "dateutil")


def load(node):
    """copy of a Store-context target as a Load expression"""
    n = ast.parse(ast.unparse(node), mode="eval").body
    return ast.copy_location(n, node)


def simple_assigns(st):
    out = []
    for n in ast.walk(st):
        if isinstance(n, ast.Assign):
            for tg in n.targets:
                if isinstance(tg, ast.Name):
                    out.append((tg.id, n.value))
                elif isinstance(tg, (ast.Tuple, ast.List)):
                    for el in tg.elts:
                        if isinstance(el, ast.Name):
                            out.append((el.id, ast.Name(id="<unpacked>", ctx=ast.Load())))
        elif isinstance(n, (ast.AugAssign, ast.AnnAssign)) and isinstance(n.target, ast.Name) and n.value is not None:
            out.append((n.target.id, ast.Name(id="<aug>", ctx=ast.Load())))
        elif isinstance(n, (ast.For, ast.comprehension)):
            for el in ast.walk(n.target):
                if isinstance(el, ast.Name):
                    out.append((el.id, ast.Name(id="<iter>", ctx=ast.Load())))
    return out


def is_validate_name(obj):
    from yaql.standard_library import yaqlized
    return obj is yaqlized._validate_name


def yaqlization_attr():
    from yaql import yaqlization
    return yaqlization.YAQLIZATION_ATTR


# ---------------------------------------------------------------------------
# registry walk with live acceptance probes
# ---------------------------------------------------------------------------
class _Canary(object):
    pass


def _iterator(x):
    yield x


def registry():
    import yaql
    ctx = yaql.create_context()
    layers, c = [], ctx
    while c is not None:
        layers.append(c)
        c = c.parent
    out = []
    for li, layer in enumerate(layers):
        for name in sorted(layer._functions):
            fds = sorted(layer._functions[name], key=lambda fd: (fd.payload.__module__, fd.payload.__qualname__,
                                                                 fd.payload.__code__.co_firstlineno))
            for fd in fds:
                out.append((li, name, fd))
    return ctx, out


def probe_parameters(fd, ctx, engine):
    """{key: (python name, kind, gated)} from the LIVE value_type.check.
    kind: 'hidden' | 'lazy' | 'host' | 'cont' | 'scalar' | 'clean'"""
    from yaql import yaqlization
    from yaql.language import yaqltypes
    plain = _Canary()
    yq = _Canary()
    yaqlization.yaqlize(yq)
    res = {}
    for key, pd in fd.parameters.items():
        vt = pd.value_type

        def acc(v):
            try:
                return bool(vt.check(v, ctx, engine))
            except Exception:
                return True          # a checker that fails on the probe is treated as accepting (fail-closed)

        gated = False
        if isinstance(vt, yaqltypes.HiddenParameterType):
            kind = "hidden"
        elif isinstance(vt, yaqltypes.LazyParameterType):
            kind = "lazy"
        elif acc(plain):
            kind = "host"
        elif acc(yq):
            kind, gated = "host", True
        elif any(acc(v) for v in ([plain], (plain,), {"k": plain}, {plain: 1}, _iterator(plain), {plain}, frozenset([plain]))):
            kind = "cont"
        elif any(acc(v) for v in ("a", 1, 1.5, True)) and not any(acc(v) for v in ([], (), {}, set(), _iterator(1))):
            kind = "scalar"
        else:
            kind = "clean"
        res[key] = (pd.name, kind, gated)
    return res


def taint_of(kind, pyname):
    if kind == "hidden":
        return T(CONT, (), False, lazy=True, hidden=True)
    if kind == "lazy":
        return T(CONT, [pyname], False, lazy=True)
    if kind == "host":
        return T(HOST, [pyname], False)
    if kind == "cont":
        return T(CONT, [pyname], False)
    if kind == "scalar":
        return SCALAR
    return NONE


def scan():
    import yaql
    ctx, regs = registry()
    engine = yaql.YaqlFactory().create()
    sc = Scanner()
    table = []
    for idx, (li, name, fd) in enumerate(regs):
        payload = fd.payload
        params = probe_parameters(fd, ctx, engine)
        gated = {}
        taints, var_t, kw_t = {}, NONE, NONE
        nhost = 0
        for key, (pyname, kind, g) in params.items():
            gated[pyname] = g
            if kind == "host":
                nhost += 1
            t = taint_of(kind, pyname)
            if key == "*":
                var_t = t if t.lazy else container(t)
            elif key == "**":
                kw_t = t if t.lazy else container(t)
            else:
                taints[pyname] = t
        has_gated = any(g for _, _, g in params.values())
        sc.cur = {"id": idx, "layer": li, "name": name, "payload": "%s.%s" % (payload.__module__, payload.__qualname__),
                  "gated": gated, "has_gated": has_gated, "seen": set(), "via": ()}
        nrows = len(sc.rows)
        sc.cache = {}
        try:
            node = sc.fn_ast(payload)
            fr = Frame(sc, payload, node, 0, True)
            fr.bind_payload(taints, var_t, kw_t)
            # python parameters that the definition does not describe are treated as HOST (fail-closed)
            described = [p for p, _, _ in params.values()]
            for n in list(fr.env):
                if n not in described:
                    fr.env[n] = T(HOST, [n], False)
            fr.run()
        except Exception as e:
            sc.rows_failed("payload %s.%s: %s: %s" % (payload.__module__, payload.__qualname__, type(e).__name__, e), None)
        table.append({"layer": li, "fn": name, "payload": sc.cur["payload"], "nparams": len(params), "nhost": nhost,
                      "gated": has_gated, "nrows": len(sc.rows) - nrows})
    return table, sc.rows


# ---------------------------------------------------------------------------
# Coq output
# ---------------------------------------------------------------------------
OPS = ["settings_read", "settings_write", "getattr", "hasattr", "setattr", "delattr", "attr", "vars", "subscript",
       "subscript_store", "subscript_del", "call", "format", "percent", "fstring", "operator_getter", "unknown_call",
       "scan_failed"]


def op_ctor(op):
    return "Op_" + op


def generate():
    table, rows = scan()
    out = []
    out.append("(* GENERATED by harness/gen_effects.py from the working tree of /repo on every run. Do not edit. *)")
    out.append("From Coq Require Import List ZArith Bool.\nImport ListNotations.\nOpen Scope Z_scope.\n")
    out.append("Inductive opkind := " + " | ".join(op_ctor(o) for o in OPS) + ".\n")
    out.append("Record erow := { e_layer : nat; e_fn : list Z; e_payload : list Z; e_op : opkind; e_detail : list Z;\n"
               "  e_origin_gated : bool;      (* every parameter the touched value derives from has a type that rejects a plain object and accepts a yaqlized one *)\n"
               "  e_in_gated_overload : bool; (* the payload has such a parameter *)\n"
               "  e_subject_member : bool;    (* the touched value was itself obtained through a validated access *)\n"
               "  e_validated : bool          (* dominated by _validate_name(<original name>, settings); member name derives from that name only *) }.\n")
    out.append("Record prow := { p_layer : nat; p_fn : list Z; p_payload : list Z; p_nparams : nat; p_nhost : nat; p_gated : bool; p_nrows : nat }.\n")
    out.append("Definition payloads : list prow := [")
    lines = []
    for p in table:
        lines.append("  (* %s  %s *)\n  {| p_layer := %d; p_fn := %s; p_payload := %s; p_nparams := %d; p_nhost := %d; p_gated := %s; p_nrows := %d |}" % (
            p["fn"].replace("*)", "* )"), p["payload"], p["layer"], gal.s(p["fn"]), gal.s(p["payload"]), p["nparams"], p["nhost"],
            gal.boolean(p["gated"]), p["nrows"]))
    out.append(";\n".join(lines))
    out.append("].\n")
    out.append("Definition effects : list erow := [")
    lines = []
    for r in rows:
        lines.append("  (* %s  %s  %s %s  at %s  origins=%s *)\n  {| e_layer := %d; e_fn := %s; e_payload := %s; e_op := %s; e_detail := %s; e_origin_gated := %s; "
                     "e_in_gated_overload := %s; e_subject_member := %s; e_validated := %s |}" % (
                         r["fn"].replace("*)", "* )"), r["payload"], r["op"], r["detail"].replace("*)", "* )").replace("(*", "( *"), r["where"], ",".join(r["origins"]),
                         r["layer"], gal.s(r["fn"]), gal.s(r["payload"]), op_ctor(r["op"]), gal.s(r["detail"]),
                         gal.boolean(r["origin_gated"]), gal.boolean(r["in_gated_overload"]), gal.boolean(r["subject_member"]),
                         gal.boolean(r["validated"])))
    out.append(";\n".join(lines))
    out.append("].\n")
    out.append("Definition n_payloads : nat := %d.\nDefinition n_effects : nat := %d.\n" % (len(table), len(rows)))
    out.append("(* self-checks of the generator *)")
    out.append("Example payloads_counted : length payloads = n_payloads. Proof. reflexivity. Qed.")
    out.append("Example effects_counted : length effects = n_effects. Proof. reflexivity. Qed.")
    out.append("Example rows_accounted : fold_right (fun p acc => (p_nrows p + acc)%nat) 0%nat payloads = n_effects. Proof. vm_compute. reflexivity. Qed.")
    return "\n".join(out) + "\n"


if __name__ == "__main__":
    table, rows = scan()
    for r in rows:
        print(r["layer"], r["fn"], r["payload"], r["op"], r["detail"], r["where"], r["origins"],
              "gated" if r["origin_gated"] else "UNGATED", "member" if r["subject_member"] else "param",
              "validated" if r["validated"] else "NOT-validated")
    print(len(table), "payloads;", len(rows), "rows;", sum(1 for p in table if p["nhost"]), "payloads with a host-accepting parameter")
