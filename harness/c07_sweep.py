"""C07 oracle: the canary sweep.

Every FunctionDefinition registered by yaql.create_context() is called (as function, as
method, operators through their internal names) with a NON-yaqlized canary object - bare,
inside a list, inside a dict, and carrying yaqlization settings whose three switches are all
off - in every argument position; the other arguments come from a typed corpus (chosen per
parameter by the live value_type.check) that contains attack strings.  A fixed list of
hand-written attack expressions is evaluated as parsed text as well.

Violation iff the canary records an access that is not one of the slots Python itself uses
(ALLOWED_*), or one of its secrets shows up in the result or in the exception text.

The cases run in forked workers with a per-case interval timer and a parent-side watchdog
(an endless generator inside C code cannot be interrupted by a signal)."""
import itertools
import multiprocessing
import os
import signal
import time

import yaql
from yaql import yaqlization
from yaql.language import exceptions as yexc
from yaql.language import expressions
from yaql.language import yaqltypes

SECRET_I = "CANARY-INSTANCE-SECRET-7f3a9"
SECRET_C = "CANARY-CLASS-SECRET-51c0d"
SECRET_M = "CANARY-METHOD-SECRET-a44e2"
SECRETS = (SECRET_I, SECRET_C, SECRET_M)

# slots the interpreter itself uses on any object (isinstance -> __class__; dict/set membership and
# `=` -> __hash__/__eq__; messages -> __str__/__repr__/__format__; conditions -> __bool__; ordering
# -> __lt__...; sys.getsizeof -> __sizeof__) and the one attribute yaql reads on every value
# __unwrapped__: yaql's own marker on the wrappers it builds for lambdas; Lambda.convert looks for it on any
# callable value handed to a lambda parameter (it does not call the value unless the engine allows delegates)
ALLOWED_INSTANCE_ATTRS = {"__class__", "__yaqlization__", "__unwrapped__"}
ALLOWED_CLASS_ATTRS = {"__mro__", "__dict__", "__name__", "__qualname__", "__module__"}
ALLOWED_PROTOCOL = {"__eq__", "__ne__", "__hash__", "__str__", "__repr__", "__bool__", "__format__", "__sizeof__",
                    "__lt__", "__le__", "__gt__", "__ge__", "__iter__", "__len__", "__contains__",
                    # operator / conversion syntax applied by a payload to an untyped argument (random(a, b), int(x)):
                    # dispatched by the interpreter, no member is named
                    "__add__", "__radd__", "__sub__", "__rsub__", "__mul__", "__rmul__", "__mod__", "__rmod__",
                    "__truediv__", "__neg__", "__pos__", "__int__", "__float__", "__index__"}

LOG = []


class CanaryMeta(type):
    def __getattribute__(cls, n):
        LOG.append(("K", n))
        return type.__getattribute__(cls, n)


def _slot(name, ret):
    def f(self, *a, **k):
        LOG.append(("P", name))
        return ret(self, *a, **k)
    f.__name__ = name
    return f


class Canary(object, metaclass=CanaryMeta):
    CLS_SECRET = SECRET_C

    def __init__(self):
        object.__setattr__(self, "secret", SECRET_I)
        object.__setattr__(self, "_hidden", SECRET_I)

    __iter__ = None          # explicitly not iterable (no legacy __getitem__ iteration either)

    def get_secret(self):
        return SECRET_M

    def startswith(self, *a):
        return SECRET_M

    def __getattribute__(self, n):
        LOG.append(("A", n))
        return object.__getattribute__(self, n)

    def __setattr__(self, n, v):
        LOG.append(("W", n))
        object.__setattr__(self, n, v)

    def __delattr__(self, n):
        LOG.append(("W", n))

    def __getitem__(self, k):
        LOG.append(("I", repr(k)[:40]))
        return SECRET_M

    def __setitem__(self, k, v):
        LOG.append(("S", repr(k)[:40]))

    def __delitem__(self, k):
        LOG.append(("S", repr(k)[:40]))

    def __call__(self, *a, **k):
        LOG.append(("C", "()"))
        return "canary-call-result"          # the invocation itself is what is recorded

    __eq__ = _slot("__eq__", lambda s, o: s is o)
    __ne__ = _slot("__ne__", lambda s, o: s is not o)
    __hash__ = _slot("__hash__", lambda s: 424242)
    __str__ = _slot("__str__", lambda s: "<canary>")
    __repr__ = _slot("__repr__", lambda s: "<canary>")
    __bool__ = _slot("__bool__", lambda s: True)
    __format__ = _slot("__format__", lambda s, spec: "<canary>")
    __sizeof__ = _slot("__sizeof__", lambda s: 64)
    __lt__ = _slot("__lt__", lambda s, o: False)
    __le__ = _slot("__le__", lambda s, o: True)
    __gt__ = _slot("__gt__", lambda s, o: False)
    __ge__ = _slot("__ge__", lambda s, o: True)
    __add__ = _slot("__add__", lambda s, o: SECRET_M)
    __radd__ = _slot("__radd__", lambda s, o: SECRET_M)
    __sub__ = _slot("__sub__", lambda s, o: SECRET_M)
    __rsub__ = _slot("__rsub__", lambda s, o: SECRET_M)
    __mul__ = _slot("__mul__", lambda s, o: SECRET_M)
    __rmul__ = _slot("__rmul__", lambda s, o: SECRET_M)
    __mod__ = _slot("__mod__", lambda s, o: SECRET_M)
    __rmod__ = _slot("__rmod__", lambda s, o: SECRET_M)
    __truediv__ = _slot("__truediv__", lambda s, o: SECRET_M)
    __neg__ = _slot("__neg__", lambda s: SECRET_M)
    __pos__ = _slot("__pos__", lambda s: SECRET_M)
    __int__ = _slot("__int__", lambda s: 7)
    __float__ = _slot("__float__", lambda s: 7.0)
    __index__ = _slot("__index__", lambda s: 7)


class IterCanary(Canary):
    """a host object that is iterable (so yaql treats it as a collection); its items are plain strings"""
    __iter__ = _slot("__iter__", lambda s: iter(["item"]))
    __len__ = _slot("__len__", lambda s: 1)
    __contains__ = _slot("__contains__", lambda s, x: False)


class Granted(object):
    """a properly yaqlized host object used as an ordinary argument"""
    def __init__(self):
        self.open = "open-value"

    def method(self, *a, **k):
        return "method-result"

    def __getitem__(self, k):
        return "item-result"


ATTACK_STRINGS = ["secret", "{receiver.secret}", "{0.secret}", "{0.__class__.CLS_SECRET}", "{0.__dict__}", "%(secret)s", "__class__",
                  "__globals__", "__dict__", "get_secret", "{.secret}", "{secret}", "_hidden", "CLS_SECRET",
                  "{0[secret]}", "__init__", "startswith"]


def make_values():
    """name -> python value; fresh per case (canaries are recreated so that state does not leak)"""
    import datetime
    import re
    c = Canary()
    off = Canary()
    object.__setattr__(off, yaqlization.YAQLIZATION_ATTR, yaqlization.build_yaqlization_settings(
        yaqlize_attributes=False, yaqlize_methods=False, yaqlize_indexer=False))
    g = Granted()
    yaqlization.yaqlize(g)
    vals = {"ci": IterCanary(), "c": c, "cl": [c], "cd": {"k": c}, "co": off, "ct": (c, c), "ck": {c: 1}, "g": g,
            "null": None, "t": True, "i0": 0, "i1": 1, "i2": 2, "im": -1, "f": 1.5, "e": "", "a": "a",
            "l0": [], "l2": [1, 2], "ls": ["secret", "{0.secret}"], "lp": [["secret", 1]], "d0": {}, "ds": {"secret": 1},
            "da": {"a": 1}, "tu": (1, 2), "st": {1, 2}, "dt": datetime.datetime(2020, 1, 2, tzinfo=datetime.timezone.utc),
            "ts": datetime.timedelta(seconds=5), "re": re.compile("a"), "it": iter([1, 2])}
    for i, s in enumerate(ATTACK_STRINGS):
        vals["s%d" % i] = s
    return vals


VALUE_ORDER = (["s%d" % i for i in range(len(ATTACK_STRINGS))] +
               ["g", "null", "t", "i1", "i0", "i2", "im", "f", "a", "e", "ls", "lp", "l2", "l0", "ds", "da", "d0", "tu", "st",
                "dt", "ts", "re", "it"])
CANARY_KEYS = ["c", "cl", "cd", "co", "ct", "ck", "ci"]


def var(name):
    return expressions.GetContextValue(expressions.Constant("$" + name))


def dot(a, b):
    return expressions.BinaryOperator(".", a, b, None)


# expression-only candidates (for lazy / constant-typed parameters)
def expr_candidates():
    return {
        "x_cur": lambda: var(""),
        "x_c": lambda: var("c"),
        "x_true": lambda: expressions.Constant(True),
        "x_kw_secret": lambda: expressions.KeywordConstant("secret"),
        "x_kw_class": lambda: expressions.KeywordConstant("__class__"),
        "x_dot_secret": lambda: dot(var(""), expressions.KeywordConstant("secret")),
        "x_cdot_secret": lambda: dot(var("c"), expressions.KeywordConstant("secret")),
        "x_ccall_secret": lambda: dot(var("c"), expressions.Function("get_secret")),
        "x_map": lambda: expressions.MappingRuleExpression(expressions.KeywordConstant("secret"), var("c")),
        "x_map2": lambda: expressions.MappingRuleExpression(var("c"), var("c")),
        "x_str_secret": lambda: expressions.Constant("{0.secret}"),
        "x_num": lambda: expressions.Constant(1),
        "x_fn": lambda: expressions.Function("get_secret", var("c")),
    }


EXPR_ORDER = ["x_cur", "x_c", "x_kw_secret", "x_dot_secret", "x_cdot_secret", "x_ccall_secret", "x_map", "x_map2",
              "x_kw_class", "x_str_secret", "x_true", "x_num", "x_fn"]
EXPR_CANARY = ["x_c", "x_cdot_secret", "x_ccall_secret", "x_map", "x_map2"]

TEXT_ATTACKS = [
    "call(coalesce, [$c], {})", "call(select, [$c], {}, [1, 2])", "call(where, [$c], {}, [1])", "call(orderBy, [$c], {}, [2, 1])",
    "call(select, [[1, 2], $c], {})", "[call(coalesce, [$c], {}), $c]", "call(coalesce, [$c], {}).secret",
    "call(switch, [$c], {})", "call(let, [], {x => $c}) -> $x()", "call(call, [coalesce, [$c], {}], {})",
    "$c.secret", "$c.secret()", "$c[secret]", "$c['secret']", "$c?.secret", "$c?.get_secret()", "$c.get_secret()",
    "$c._hidden", "$c.__class__()", "__class__($c)", "$c.__init__()", "$c.__getattribute__(secret)",
    "call(secret, [$c], {})", "call(get_secret, [$c], {})", "call(get_secret, [], {}, $c)", "$c.call(get_secret, [], {})",
    "call('#operator_.', [$c, secret], {})", "call('#indexer', [$c, secret], {})", "call(__class__, [$c], {})",
    "call(str, [], {'__class__' => 1, value => $c})", "call(str, [$c], {'{0.secret}' => 1})",
    "str($c)", "'{0.secret}'.format($c)", "format('{0.secret}', $c)", "'{0.secret}'.format(x => $c)",
    "'%(secret)s' % $c", "'%s' % $c", "$c -> $.secret", "let(x => $c) -> $x.secret", "[$c].select($.secret)",
    "[$c].select($.get_secret())", "dict(a => $c).a.secret", "{a => $c}.a.get_secret()", "[$c][0].secret", "[$c][0][secret]",
    "$c + ''", "'' + $c", "$c * 2", "-$c", "$c < 1", "$c = $c", "$c in [$c]", "[$c].orderBy($)", "[$c, $c].distinct()",
    "toString($c)", "$c.toString()", "len($c)", "$c.len()", "$c.toList()", "list($c)", "dict($c)", "$c.toDict($, $)",
    "$c.keys()", "$c.values()", "$c.items()", "$c.get(secret)", "$c.get(secret, 1)", "$c.first()", "$c.join(',')",
    "','.join([$c])", "$c.select($)", "$c.where($)", "$c.sum()", "[$c].sum()", "[$c].sum('')", "int($c)", "float($c)",
    "bool($c)", "not $c", "$c and $c", "$c or 1", "isString($c)", "isDict($c)", "isList($c)", "isSet($c)", "isNumber($c)",
    "isInteger($c)", "isBoolean($c)", "isDatetime($c)", "isTimespan($c)", "isRegex($c)", "$c.year", "$c.value", "$c.days",
    "regex($c)", "regex('a').matches($c)", "'a' =~ $c", "$c =~ 'a'", "hex($c)", "abs($c)", "max($c, 1)", "min([$c])",
    "switch($c => 1)", "coalesce($c).secret", "$c.secret.x", "$g.open", "$g.method()", "$g[k]", "$g._x", "$g[$c]",
    "$g.method($c)", "$g.open.secret", "$g.method().secret", "$g.__class__", "$g.__class__()", "$g['__class__']",
    "$g['__dict__']", "$g.__dict__()", "$co.secret", "$co.get_secret()", "$co[secret]", "$co['secret']", "$co._hidden",
    "$cl.select($.secret)", "$cl[0].secret", "$cd.k.secret", "$cd.k.get_secret()", "$cd[k][secret]", "$cd.get(k).secret",
    "$ck.keys().select($.secret)", "$ct[0].secret", "with($c) -> $.secret", "$c.with($) -> $.secret",
    "def(f, $c.secret) -> f()", "lambda($.secret)($c)", "$c()", "$c(1)", "[$c].select($(1))", "#secret", "$c.#secret",
    "$c.as($.secret => x)", "$c.let(x => $.secret)", "assert($c, $.secret)", "$c.assert($.secret)",
    "{secret => $c}.secret.secret", "dict(secret => 1).format($c)", "$c.format('{0.secret}')",
    "datetime(2020,1,1).format('{0.secret}')", "$c.replace('secret', 'x')", "'secret'.replace($c, 'x')",
    "'{0.secret}' + str($c)", "[1,2].join($c)", "range($c)", "sequence($c)", "$c.memorize()", "zip([$c], [$c])",
    "$c.zip([$c])", "[$c].toDict($.secret, 1)", "[$c].groupBy($.secret)", "[$c].orderBy($.secret)", "[$c].any($.secret)",
    "[$c].takeWhile($.get_secret())", "[[$c]].selectMany($)", "[$c].aggregate($1.secret)", "$c.insert(0, 1)", "[1].insert(0, $c)",
    "{a => 1}.set($c, 1)", "{a => 1}.set(a, $c)", "set($c)", "set($c, $c)", "[$c].toSet()", "$c.contains(1)", "[1].contains($c)",
    "{a => 1}.containsKey($c)", "{a => 1}.containsValue($c)", "$c.containsKey(secret)", "{a => 1}[$c]", "{a => 1}[$c, 2]", "[1, 2][$c]",
]


# ---- attacker-controlled strings used as function / method / member / keyword NAMES ------------
def name_fields():
    """field names a str.format call inside yaql could bind a host object to: positional indexes and the
    parameter names of every exception constructor and of the name-taking stdlib payloads (introspected)"""
    import inspect
    fields = ["0", "1", "2", "", "self", "obj", "x", "args[0]", "kwargs[x]"]
    for n, cls in sorted(vars(yexc).items()):
        if isinstance(cls, type) and issubclass(cls, Exception):
            try:
                fields += [q for q in inspect.signature(cls.__init__).parameters if q not in ("self", "args", "kwargs")]
            except (TypeError, ValueError):
                pass
    out = []
    for f in fields:
        if f not in out:
            out.append(f)
    return out


def name_templates(deep):
    ts = []
    for f in name_fields():
        sufs = [".secret", "[secret]"]
        if deep or f in ("receiver", "0", "name"):
            sufs += [".__class__.CLS_SECRET", "._hidden", ".get_secret", ".__dict__"]
        ts += ["{%s%s}" % (f, suf) for suf in sufs]
    ts += ["%(secret)s", "%(receiver)s", "%s", "{}", "{!r}", "{0}", "{receiver}", "{receiver!r:>{receiver.secret}}"]
    return ts


NAME_TEXT_SHAPES = [
    "call('%(t)s', [], {}, $c)", "call('%(t)s', [$c], {})", "call('%(t)s', [], {x => $c})", "call('%(t)s', [], {'%(t)s' => $c})",
    "call('%(t)s', [$c], {x => $c}, $c)", "call(call, ['%(t)s', [], {}], {receiver => $c})", "call('%(t)s', [], {receiver => $c})",
    "call('%(t)s', [1], {a => 2}, $c)", "call('%(t)s', [], {}, $cl)", "call('%(t)s', [], {}, $co)", "call('%(t)s', [], {}, $ci)",
    "call('%(t)s', [], {}, $cd)", "call('%(t)s', [$c], {}, $g)", "call(call, ['%(t)s', [$c], {}], {})",
    "call(call, [call, ['%(t)s', [], {}, $c], {}], {})", "call(str, [], {'%(t)s' => $c})", "call(str, [$c], {'%(t)s' => 1})",
    "call(len, [], {'%(t)s' => $c}, $c)", "def('%(t)s', $) -> call('%(t)s', [$c], {})", "def('%(t)s', $.secret) -> call('%(t)s', [$c], {})",
    "def('%(t)s', $c) -> 1", "$c.call('%(t)s', [], {})", "call('#operator_.', [$c, '%(t)s'], {})", "call('#indexer', [$c, '%(t)s'], {})",
    "call('#property#%(t)s', [$c], {})", "call('#get_context_data', ['%(t)s'], {})", "$c['%(t)s']", "$g['%(t)s']", "$cd['%(t)s']",
    "$cd.get('%(t)s')", "$cl.select(call('%(t)s', [], {}, $))", "$cl.select(call('%(t)s', [$], {}))",
    "[$c].select(call('%(t)s', [], {receiver => $}))", "lambda(call('%(t)s', [], {}, $))($c)",
]


def _kw(t):
    return expressions.KeywordConstant(t)


NAME_TREE_SHAPES = {
    "fn(c)": lambda t: expressions.Function(t, var("c")),
    "fn()": lambda t: expressions.Function(t),
    "c.m()": lambda t: dot(var("c"), expressions.Function(t)),
    "c.m(c)": lambda t: dot(var("c"), expressions.Function(t, var("c"))),
    "cl.m()": lambda t: dot(var("cl"), expressions.Function(t)),
    "ci.m()": lambda t: dot(var("ci"), expressions.Function(t)),
    "co.m()": lambda t: dot(var("co"), expressions.Function(t)),
    "g.m()": lambda t: dot(var("g"), expressions.Function(t)),
    "g.m(c)": lambda t: dot(var("g"), expressions.Function(t, var("c"))),
    "c?.m()": lambda t: expressions.BinaryOperator("?.", var("c"), expressions.Function(t), None),
    "c.attr": lambda t: dot(var("c"), _kw(t)),
    "co.attr": lambda t: dot(var("co"), _kw(t)),
    "g.attr": lambda t: dot(var("g"), _kw(t)),
    "cd.attr": lambda t: dot(var("cd"), _kw(t)),
    "cl.attr": lambda t: dot(var("cl"), _kw(t)),
    "c[kw]": lambda t: expressions.IndexExpression(var("c"), _kw(t)),
    "g[kw]": lambda t: expressions.IndexExpression(var("g"), _kw(t)),
    "str(kw=>c)": lambda t: expressions.Function("str", expressions.MappingRuleExpression(_kw(t), var("c"))),
    "c.m(kw=>c)": lambda t: dot(var("c"), expressions.Function("len", expressions.MappingRuleExpression(_kw(t), var("c")))),
    "g.method(kw=>c)": lambda t: dot(var("g"), expressions.Function("method", expressions.MappingRuleExpression(_kw(t), var("c")))),
    "getctx": lambda t: expressions.Function("#get_context_data", expressions.Constant(t)),
    "getctx$": lambda t: expressions.GetContextValue(expressions.Constant("$" + t)),
}


def name_cases(deep):
    out = []
    for t in name_templates(deep):
        for i in range(len(NAME_TEXT_SHAPES)):
            out.append({"k": "name", "shape": i, "t": t})
        for sid in sorted(NAME_TREE_SHAPES):
            out.append({"k": "name", "shape": sid, "t": t})
    return out


def exc_class(e):
    if isinstance(e, yexc.ResolutionError):
        return "resolution"
    if isinstance(e, yexc.YaqlException):
        return "yaql:" + type(e).__name__
    return "py:" + type(e).__name__


class CaseTimeout(BaseException):
    pass


def _alarm(signum, frame):
    raise CaseTimeout()


def render(res, depth=0):
    """bounded text of a result (iterators: first 30 items)"""
    try:
        if isinstance(res, (str, bytes, int, float, bool, type(None))):
            return repr(res)[:4000]
        if isinstance(res, dict):
            return "{" + ",".join(render(k, depth + 1) + ":" + render(v, depth + 1) for k, v in itertools.islice(res.items(), 30)) + "}"
        if isinstance(res, (list, tuple, set, frozenset)):
            return "[" + ",".join(render(v, depth + 1) for v in itertools.islice(res, 30)) + "]"
        if depth < 3 and hasattr(type(res), "__next__"):
            return "it[" + ",".join(render(v, depth + 1) for v in itertools.islice(res, 30)) + "]"
        return repr(res)[:4000]
    except CaseTimeout:
        raise
    except Exception as e:
        return "<unrenderable %s: %s>" % (type(e).__name__, str(e)[:2000])


F20_LABEL = "canary invoked as the VALUE of a lambda parameter that call() was given (Lambda._call)"
OTHER_LAMBDA_LABEL = "canary invoked as the value of a lambda parameter that did NOT come through call()"
CALL_ROUTED = set()      # ids of the objects the running case passed through call(name, args, kwargs[, receiver])


def install_lambda_tracer():
    """marks, in LOG, the span in which yaqltypes.Lambda._call runs with a canary as the lambda's VALUE"""
    if getattr(yaqltypes.Lambda._call, "_c07_traced", False):
        return
    orig = yaqltypes.Lambda._call

    def traced(self, value, receiver, context, engine, args, kwargs):
        if isinstance(value, Canary):
            LOG.append(("L", "begin-call" if id(value) in CALL_ROUTED else "begin-other"))
            try:
                return orig(self, value, receiver, context, engine, args, kwargs)
            finally:
                LOG.append(("L", "end"))
        return orig(self, value, receiver, context, engine, args, kwargs)
    traced._c07_traced = True
    yaqltypes.Lambda._call = traced


def judge(log, text):
    bad = []
    spans = []
    for kind, n in log:
        if kind == "L":
            if n == "end":
                spans.pop()
            else:
                spans.append(n)
            continue
        if kind == "C" and spans:
            bad.append(F20_LABEL if spans[-1] == "begin-call" else OTHER_LAMBDA_LABEL)
            continue
        if kind == "A" and n not in ALLOWED_INSTANCE_ATTRS:
            bad.append("attribute %s read on the canary" % n)
        elif kind == "K" and n not in ALLOWED_CLASS_ATTRS:
            bad.append("class attribute %s read on the canary's class" % n)
        elif kind == "P" and n not in ALLOWED_PROTOCOL:
            bad.append("operator slot %s invoked on the canary" % n)
        elif kind == "I":
            bad.append("canary indexed with %s" % n)
        elif kind == "C":
            bad.append("canary called")
        elif kind in ("W", "S"):
            bad.append("canary written (%s)" % n)
    for s in SECRETS:
        if s in text:
            bad.append("secret %s appears in the result / exception text" % s.split("-")[1].lower())
    out = []
    for b in bad:
        if b not in out:
            out.append(b)
    return out


CANARY_VARS = {"$" + k for k in ("c", "cl", "cd", "co", "ct", "ck", "ci", "")} | {"$"}


def canary_only_inside_call_args(node, inside=False):
    """every occurrence of a canary variable (or `$`, which is bound to the canary) lies inside the
    arguments of a call(...) function node"""
    if isinstance(node, expressions.GetContextValue):
        path = node.path.value if isinstance(node.path, expressions.Constant) else None
        return inside or path not in CANARY_VARS
    kids = []
    if isinstance(node, expressions.Statement):
        kids = [(node.expression, inside)]
    elif isinstance(node, expressions.Function):
        is_call = node.name == "call" and type(node) is expressions.Function
        kids = [(a, inside or (is_call and i >= 1)) for i, a in enumerate(node.args)]
    elif isinstance(node, expressions.MappingRuleExpression):
        kids = [(node.source, inside), (node.destination, inside)]
    elif isinstance(node, expressions.Wrap):
        kids = [(node.expr, inside)]
    return all(canary_only_inside_call_args(k, i) for k, i in kids)


class Sweeper(object):
    def __init__(self):
        install_lambda_tracer()
        self.engine = yaql.YaqlFactory().create(options={"yaql.limitIterators": 60, "yaql.memoryQuota": 300000})
        self.ctx = yaql.create_context()
        import gen_effects
        _, self.regs = gen_effects.registry()
        self.exprs = expr_candidates()
        self.trace_call_payload()

    def trace_call_payload(self):
        """remember which objects the expression routes through call(name, args, kwargs[, receiver]) (wrapper
        around the payload of this sweeper's own context, nothing in /repo changes)"""
        from yaql.standard_library import system
        c = self.ctx
        while c is not None:
            for fd in c._functions.get("call", ()):
                if fd.payload is system.call_func:
                    orig = fd.payload

                    from yaql.language import utils as yutils

                    def traced(context, engine, name, args, kwargs, receiver=yutils.NO_VALUE, _orig=orig):
                        for v in list(args) + list(kwargs.values()) + [receiver]:
                            if isinstance(v, Canary):
                                CALL_ROUTED.add(id(v))
                        return _orig(context, engine, name, args, kwargs, receiver)
                    fd.payload = traced
            c = c.parent

    # ---- acceptance ----------------------------------------------------
    def accepted(self, pd, vals):
        vt = pd.value_type
        out = []
        for k in VALUE_ORDER + CANARY_KEYS:
            try:
                if vt.check(vals[k], self.ctx, self.engine):
                    out.append(k)
            except Exception:
                pass
        for k in EXPR_ORDER:
            try:
                if vt.check(self.exprs[k](), self.ctx, self.engine):
                    if not isinstance(vt, (yaqltypes.LazyParameterType, yaqltypes.Constant)) and k in ("x_true", "x_num", "x_str_secret"):
                        continue
                    out.append(k)
            except Exception:
                pass
        return out

    def plan(self, deep):
        """deterministic list of case descriptors"""
        cases = []
        vals = make_values()
        for idx, (li, name, fd) in enumerate(self.regs):
            pos, kw = [], None
            for key, pd in fd.parameters.items():
                if isinstance(pd.value_type, yaqltypes.HiddenParameterType):
                    continue
                if key == "*":
                    pos.append((pd.position if pd.position is not None else 99, pd, True))
                elif key == "**":
                    kw = pd
                elif pd.position is not None:
                    pos.append((pd.position, pd, False))
                else:
                    pos.append((100, pd, False))     # keyword-only: passed positionally is not possible; skipped below
            pos.sort(key=lambda t: t[0])
            slots = []
            for p, pd, star in pos:
                if p == 100:
                    continue
                acc = self.accepted(pd, vals)
                slots.append(acc)
                if star:
                    slots.append(acc)
            if not slots:
                cases.append({"k": "fd", "i": idx, "form": "function", "args": []})
                continue
            forms = []
            if fd.is_function or name.startswith("#"):
                forms.append("function")
            if fd.is_method:
                forms.append("method")
            if not forms:
                forms = ["function"]
            cap = 8 if deep else 4
            for i, acc in enumerate(slots):
                canaries = [k for k in acc if k in CANARY_KEYS or k in EXPR_CANARY]
                if not canaries:
                    # still try the bare canary: the resolution must refuse it without touching it
                    canaries = ["c"]
                for ck in canaries:
                    others = []
                    for j, a in enumerate(slots):
                        if j == i:
                            continue
                        cand = [k for k in a if k not in CANARY_KEYS][:cap] or ["null"]
                        others.append(cand)
                    base = [o[0] for o in others]
                    combos = [list(base)]
                    for j, o in enumerate(others):
                        for alt in o[1:]:
                            cb = list(base)
                            cb[j] = alt
                            combos.append(cb)
                    if deep and len(others) == 2:
                        combos += [[a, b] for a in others[0] for b in others[1]]
                    seen = set()
                    for cb in combos:
                        args = cb[:i] + [ck] + cb[i:]
                        if tuple(args) in seen:
                            continue
                        seen.add(tuple(args))
                        for form in forms:
                            cases.append({"k": "fd", "i": idx, "form": form, "args": args})
            # the same overload reached through call(name, [values...], {}[, receiver]): every argument is then a
            # VALUE, also in the positions of lazy (lambda) parameters
            for i in range(len(slots)):
                for ck in ["c", "co", "ci"] + (["cl"] if "cl" in slots[i] else []):
                    args = []
                    for j, a in enumerate(slots):
                        if j == i:
                            args.append(ck)
                        else:
                            args.append(next((k for k in a if not k.startswith("x_") and k not in CANARY_KEYS), "i1"))
                    if fd.is_function or name.startswith("#"):
                        cases.append({"k": "fd", "i": idx, "form": "call", "args": args})
                    if fd.is_method:
                        cases.append({"k": "fd", "i": idx, "form": "callm", "args": args})
        for t in TEXT_ATTACKS:
            cases.append({"k": "text", "expr": t})
        cases += name_cases(deep)
        return cases

    # ---- one case --------------------------------------------------------
    def build(self, case):
        if case["k"] == "text":
            return self.engine(case["expr"])
        if case["k"] == "name":
            if isinstance(case["shape"], int):
                return self.engine(NAME_TEXT_SHAPES[case["shape"]] % {"t": case["t"]})
            body = NAME_TREE_SHAPES[case["shape"]](case["t"])
            return expressions.Statement(body, self.engine)

        def node(k):
            return self.exprs[k]() if k.startswith("x_") else var(k)

        li, name, fd = self.lookup(case)
        nodes = [node(k) for k in case["args"]]
        if case["form"] in ("call", "callm"):
            recv = [nodes[0]] if case["form"] == "callm" and nodes else []
            rest = nodes[1:] if recv else nodes
            lst = expressions.ListExpression(*rest)
            body = expressions.Function("call", expressions.Constant(name), lst, expressions.MapExpression(), *recv)
            body.uses_receiver = False
        elif case["form"] == "method" and nodes:
            body = expressions.BinaryOperator(".", nodes[0], expressions.Function(name, *nodes[1:]), None)
        else:
            body = expressions.Function(name, *nodes)
            body.uses_receiver = False
        return expressions.Statement(body, self.engine)

    def lookup(self, case):
        """registry entry of an fd case: by (name, payload) when recorded (replays survive registry changes)"""
        if "fn" in case:
            for li, name, fd in self.regs:
                if name == case["fn"] and "%s.%s" % (fd.payload.__module__, fd.payload.__qualname__) == case["payload"]:
                    return li, name, fd
            raise LookupError("function %s / %s is not registered any more" % (case["fn"], case["payload"]))
        return self.regs[case["i"]]

    def describe(self, case):
        if case["k"] == "text":
            return case["expr"]
        if case["k"] == "name":
            if isinstance(case["shape"], int):
                return NAME_TEXT_SHAPES[case["shape"]] % {"t": case["t"]}
            return "tree %s with the name %r: %s" % (case["shape"], case["t"], NAME_TREE_SHAPES[case["shape"]](case["t"]))
        li, name, fd = self.lookup(case)
        vals = make_values()

        def show(k):
            if k.startswith("x_"):
                return "<" + str(self.exprs[k]()) + ">"
            v = vals[k]
            return "$" + k + "=" + (repr(v) if isinstance(v, (str, int, float, bool, type(None))) else type(v).__name__)
        return "%s %s(%s) [payload %s.%s, layer %d]" % (case["form"], name, ", ".join(show(k) for k in case["args"]),
                                                         fd.payload.__module__, fd.payload.__qualname__, li)

    def run_case(self, case, timeout=2.0):
        """-> (outcome class, violations)"""
        vals = make_values()
        ctx = self.ctx.create_child_context()
        for k, v in vals.items():
            ctx[k] = v
        ctx["$"] = vals["c"]
        try:
            st = self.build(case)
        except Exception as e:
            return "unparsable:" + type(e).__name__, []
        self.last_via_call = bool(canary_only_inside_call_args(st))
        del LOG[:]
        CALL_ROUTED.clear()
        signal.signal(signal.SIGALRM, _alarm)
        signal.setitimer(signal.ITIMER_REAL, timeout)
        try:
            try:
                res = st.evaluate(context=ctx)
                log_snapshot = list(LOG)
                text = render(res)
                del LOG[:]
                LOG.extend(log_snapshot)
                outcome = "value"
            except CaseTimeout:
                raise
            except Exception as e:
                outcome = exc_class(e)
                text = ""
                log_snapshot = list(LOG)
                try:
                    text = str(e)[:6000]
                except Exception:
                    pass
                del LOG[:]
                LOG.extend(log_snapshot)
        except CaseTimeout:
            signal.setitimer(signal.ITIMER_REAL, 0)
            return "timeout", judge(list(LOG), "")
        finally:
            signal.setitimer(signal.ITIMER_REAL, 0)
        return outcome, judge(list(LOG), text)


def _worker(sw, cases, lo, hi, conn, skip):
    for i in range(lo, hi):
        if cases[i].get("i") in skip:
            conn.send(("r", i, "skipped-after-hang", []))
            continue
        conn.send(("s", i))
        try:
            outcome, bad = sw.run_case(cases[i])
            if bad and getattr(sw, "last_via_call", False):
                outcome += "|via-call"
        except BaseException as e:       # harness problem: reported, never silently dropped
            outcome, bad = "harness:" + type(e).__name__, []
        conn.send(("r", i, outcome, bad))
    conn.send(("d",))
    conn.close()


def run_parallel(sw, cases, nproc=14, stall=6.0):
    """returns {index: (outcome, violations)}; a case that stalls its worker is recorded as 'hung'"""
    mp = multiprocessing.get_context("fork")
    results = {}
    chunks = []
    n = len(cases)
    size = max(1, (n + nproc * 4 - 1) // (nproc * 4))
    pending = [(lo, min(n, lo + size)) for lo in range(0, n, size)]
    active = []
    skip = set()

    def start(lo, hi):
        a, b = mp.Pipe(duplex=False)
        p = mp.Process(target=_worker, args=(sw, cases, lo, hi, b, set(skip)), daemon=True)
        p.start()
        b.close()
        active.append({"p": p, "c": a, "lo": lo, "hi": hi, "cur": lo, "t": time.time()})

    while pending or active:
        while pending and len(active) < nproc:
            start(*pending.pop(0))
        for w in list(active):
            done = False
            try:
                while w["c"].poll(0.01):
                    m = w["c"].recv()
                    w["t"] = time.time()
                    if m[0] == "s":
                        w["cur"] = m[1]
                    elif m[0] == "r":
                        results[m[1]] = (m[2], m[3])
                    elif m[0] == "d":
                        done = True
            except (EOFError, OSError):
                done = True
                if w["cur"] not in results and w["cur"] < w["hi"]:
                    results[w["cur"]] = ("worker-died", [])
                    if w["cur"] + 1 < w["hi"]:
                        pending.insert(0, (w["cur"] + 1, w["hi"]))
            if done:
                w["p"].join(timeout=1)
                active.remove(w)
            elif time.time() - w["t"] > stall:
                w["p"].kill()
                w["p"].join(timeout=2)
                results[w["cur"]] = ("hung", [])
                if cases[w["cur"]].get("i") is not None:
                    skip.add(cases[w["cur"]]["i"])
                active.remove(w)
                if w["cur"] + 1 < w["hi"]:
                    pending.insert(0, (w["cur"] + 1, w["hi"]))
        time.sleep(0.005)
    return results


def sweep(run, deep, corpus):
    lexer_gate(run)
    sw = Sweeper()
    thorough = deep or not run.quick
    cases = [c for c in corpus] + sw.plan(thorough)
    t0 = time.time()
    results = run_parallel(sw, cases)
    run.note("canary sweep: %d cases over %d registered overloads + %d attack texts + %d name-as-template cases "
             "(%d templates x %d shapes) in %.1fs (deep=%s)" % (
                 len(cases), len(sw.regs), len(TEXT_ATTACKS), len(name_cases(thorough)), len(name_templates(thorough)),
                 len(NAME_TEXT_SHAPES) + len(NAME_TREE_SHAPES), time.time() - t0, thorough))
    run.note("slots not counted as reaching a member: instance attributes %s; class attributes %s (structural "
             "isinstance / type names); operator slots %s" % (sorted(ALLOWED_INSTANCE_ATTRS), sorted(ALLOWED_CLASS_ATTRS),
                                                            sorted(ALLOWED_PROTOCOL)))
    reported = {}
    for i, c in enumerate(cases):
        outcome, bad = results.get(i, ("missing", []))
        via_call = outcome.endswith("|via-call")
        outcome = outcome.replace("|via-call", "")
        ran = outcome == "value" or outcome.startswith("py:") or (outcome.startswith("yaql:"))
        run.case(("sweep", c.get("i"), c.get("form"), tuple(c.get("args", ())), c.get("expr")), nontrivial=ran)
        run.count("sweep:" + (outcome if not outcome.startswith("py:") else "python-exception"))
        if c["k"] == "name":
            run.count("sweep-name-shape:" + ("text" if isinstance(c["shape"], int) else "tree"))
        if c["k"] == "fd":
            run.count("sweep-canary:" + next((k for k in c["args"] if k in CANARY_KEYS or k in EXPR_CANARY), "none"))
        if outcome in ("hung", "timeout", "worker-died", "missing") or outcome.startswith("harness:"):
            run.cov["uncovered"].append("%s: %s" % (outcome, sw.describe(c)))
        if i % 1511 == 0:
            run.sample({"sweep": sw.describe(c), "outcome": outcome})
        if bad:
            f20 = bad == [F20_LABEL]
            if f20:
                run.count("sweep:F22-class")
            key = (c.get("i"), bad[0], f20) if c["k"] == "fd" else (c["k"], bad[0], f20)
            if key in reported:
                reported[key] += 1
                continue
            reported[key] = 1
            what = ("a registered function touches a host object that was not yaqlized: %s" % bad[0]) \
                if c["k"] == "fd" else ("an expression reaches into a host object that was not yaqlized: %s" % bad[0])
            if c["k"] == "name":
                what = ("a string supplied by the expression as a function / method / member / keyword NAME is interpreted "
                        "(format template) against a host object that was not yaqlized: %s" % bad[0])
            if c["k"] == "fd":
                what += " [%s]" % sw.regs[c["i"]][1]
            if c["k"] == "fd":
                c = dict(c, fn=sw.regs[c["i"]][1], payload="%s.%s" % (sw.regs[c["i"]][2].payload.__module__,
                                                                      sw.regs[c["i"]][2].payload.__qualname__))
            run.fail("violation", what, {"sweep": c, "expression": sw.describe(c), "observed": {"outcome": outcome, "accesses": bad},
                                         "route": {"via_call": via_call},
                                         "required": "only the protocol slots listed in the evidence notes may be used on a non-yaqlized object; no secret in any result or message",
                                         "theorems": ["C07_only_gated_payloads_touch_hosts", "C07_not_yaqlized_denied"]})
    if len(run.cov["uncovered"]) > 40:
        extra = len(run.cov["uncovered"]) - 40
        run.cov["uncovered"] = run.cov["uncovered"][:40] + ["... and %d more" % extra]


def lexer_gate(run):
    """defence in depth named by the property: a keyword token cannot start with '__' and is_keyword agrees"""
    from yaql.language import utils
    eng = yaql.YaqlFactory().create()
    for n in ["__x", "__class__", "__", "__a1", "__init__"]:
        problems = []
        if utils.is_keyword(n):
            problems.append("utils.is_keyword(%r) is true" % n)
        for text in ("$obj.%s" % n, "$obj[%s]" % n, "f(%s => 1)" % n, n):
            try:
                st = eng(text)
            except yexc.YaqlParsingException:
                continue
            except Exception as e:
                problems.append("%r: %s" % (text, type(e).__name__))
                continue
            stack = [st]
            while stack:
                x = stack.pop()
                if isinstance(x, expressions.KeywordConstant) and x.value == n:
                    problems.append("%r parses to the keyword %r" % (text, n))
                stack.extend(getattr(x, "args", ()) or ())
                for attr in ("expression", "source", "destination", "expr"):
                    if hasattr(x, attr):
                        stack.append(getattr(x, attr))
        run.case(("lexer-gate", n), nontrivial=True)
        run.count("lexer-gate")
        if problems:
            run.fail("mismatch", "keyword tokens may start with '__' (lexer.py t_KEYWORD_STRING / utils.KEYWORD_REGEX lost the (?!__) "
                     "guard): %s" % "; ".join(problems), {"names": n, "problems": problems})
            return


def in_f20_class(data):
    """exactly the class of known finding F22: the ONLY observation is the invocation from Lambda._call with, as the
    lambda's VALUE, an object that the expression passed through call(name, args, kwargs[, receiver])"""
    if not isinstance(data, dict) or "sweep" not in data or not isinstance(data.get("observed"), dict):
        return False
    return data["observed"].get("accesses") == [F20_LABEL]


def replay(run, case):
    sw = Sweeper()
    outcome, bad = sw.run_case(case, timeout=10.0)
    log("replay: %s -> %s %s" % (sw.describe(case) if not outcome.startswith("unparsable") else case, outcome, bad))
    return not bad


def log(*a):
    print(*a, flush=True)
