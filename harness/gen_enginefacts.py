"""Gen/EngineFacts.v: does a parse call work on a lexer object of its own?

Behavioural probe (no reliance on how the code spells it): a second parse is run re-entrantly
between the first and second token fetch of an outer parse; `lexer_private` is true iff the two
calls were served by different ply Lexer objects, neither of them the engine's own lexer, and the
engine's lexer fields (lexdata, lexpos, lexlen) are the same before and after."""
OUTPUT = "EngineFacts.v"


def probe():
    import ply.lex
    import yaql
    import threading
    eng = yaql.YaqlFactory().create()
    seen, depth = [], [0]
    orig = ply.lex.Lexer.token
    owner = threading.get_ident()

    def tok(self):
        if threading.get_ident() != owner:          # other threads (after a blocked probe was abandoned) are not probed
            return orig(self)
        seen.append((depth[0], id(self)))
        if depth[0] == 0 and sum(1 for d, _ in seen if d == 0) == 2:
            depth[0] = 1
            try:
                eng("x")
            finally:
                depth[0] = 0
        return orig(self)

    def fields():
        lx = eng.lexer
        return (getattr(lx, "lexdata", None), getattr(lx, "lexpos", None), getattr(lx, "lexlen", None))

    before = fields()
    ply.lex.Lexer.token = tok
    try:
        try:
            eng("1 + 2")
        except Exception:
            pass
    finally:
        ply.lex.Lexer.token = orig
    after = fields()
    outer = {i for d, i in seen if d == 0}
    inner = {i for d, i in seen if d == 1}
    private = (len(outer) == 1 and len(inner) == 1 and not (outer & inner)
               and id(eng.lexer) not in outer | inner and before == after)
    return {"private": private, "outer_objs": len(outer), "inner_objs": len(inner),
            "engine_lexer_untouched": before == after}


def probe_guarded(seconds=20.0):
    """the probe in a helper thread: an engine that serialises its parses with a lock never returns from the re-entrant
    parse (the parse waits for itself); then the fact cannot be established by this probe and is reported as false"""
    import threading
    box = []
    th = threading.Thread(target=lambda: box.append(probe()), daemon=True)
    th.start()
    th.join(seconds)
    if box:
        # the re-entrant parse returns: the fact itself is established in the CALLING thread (a parse may behave
        # differently when it is the only thread of the process)
        return probe()
    # the helper thread stays stuck inside the patched Lexer.token; the patch only acts on that thread
    return {"private": False, "outer_objs": 0, "inner_objs": 0, "engine_lexer_untouched": False, "blocked": True}


def generate():
    p = probe_guarded()
    return ("(* REGENERATED from /repo on every run by harness/gen_enginefacts.py *)\n"
            "Definition lexer_private : bool := %s.\n"
            "Definition engine_lexer_untouched : bool := %s.\n"
            % ("true" if p["private"] else "false", "true" if p["engine_lexer_untouched"] else "false"))
