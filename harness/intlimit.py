"""C03 under other int-digit limits: run in a FRESH interpreter (started with
PYTHONINTMAXSTRDIGITS=<n> by the caller, and/or told to call
sys.set_int_max_str_digits(<m>) after the engine exists).  Reads
{"set_after": m|null, "texts": [compressed text...]} on stdin, prints the list of
predicate failures [{"index", "why"}] and the limit in force."""
import json
import sys


def decompress(d):
    if "text" in d:
        return "".join(chr(c) for c in d["text"])
    return "".join("".join(chr(c) for c in b) * r for b, r in d["blocks"])


def main():
    import warnings
    warnings.simplefilter("ignore")
    import yaql
    from yaql.language import exceptions, expressions
    req = json.load(sys.stdin)
    engine = yaql.YaqlFactory().create()
    if req.get("set_after") is not None:
        sys.set_int_max_str_digits(req["set_after"])
    fails = []
    for i, d in enumerate(req["texts"]):
        text = decompress(d)
        try:
            r = engine(text)
            if not isinstance(r, expressions.Statement):
                fails.append({"index": i, "why": "engine(text) returned %s" % type(r).__name__})
        except exceptions.YaqlParsingException as e:
            pos = getattr(e, "position", None)
            if pos is not None and not (isinstance(pos, int) and 0 <= pos < len(text)):
                fails.append({"index": i, "why": "reported error position %r is outside the text of length %d" % (pos, len(text))})
        except BaseException as e:   # noqa
            fails.append({"index": i, "why": "an exception that is not a YaqlParsingException escapes the parser: %s" % type(e).__name__})
    json.dump({"limit": sys.get_int_max_str_digits(), "failures": fails}, sys.stdout)


if __name__ == "__main__":
    main()
