"""Gen/LimitFacts.v - facts about the iterator limit and the memory quota, taken
from the LIVE objects of the current /repo working tree (no source-text matching):

* one row per parameter of every FunctionDefinition reachable from
  yaql.create_context(): does the live `value_type.check` accept a generator
  object / 1 / 'a' / None, and does `value_type.convert` of an endless counting
  iterator, under an engine with yaql.limitIterators = 3, give something that
  raises CollectionTooLargeException after at most 4 pulls (decided by behaviour);
* sys.getsizeof base / per-item constants of tuple, list and the four str
  representations on the running interpreter (fitted on fresh values and
  verified on further lengths; the generator fails if the law is not linear).
"""
import inspect
import itertools
import re
import sys

import gal

OUTPUT = "LimitFacts.v"
PROBE_LIMIT = 3


def layers(ctx):
    out, depth = [], 0
    while ctx is not None:
        fns = getattr(ctx, "_functions", {})
        for name in sorted(fns):
            for fd in sorted(fns[name], key=lambda f: (f.payload.__module__, f.payload.__name__,
                                                       getattr(f.payload, "__code__", None) and f.payload.__code__.co_firstlineno or 0)):
                out.append((depth, name, fd))
        ctx = ctx.parent
        depth += 1
    return out


def payload_name(fd):
    return "%s.%s" % (fd.payload.__module__.split(".")[-1], fd.payload.__name__)


# --------------------------------------------------------------------------
# every iterable SHAPE a host can hand to yaql unconverted (context variable,
# convertInputData=False): each must be limited wherever a collection type accepts it
# --------------------------------------------------------------------------
class _Counting:
    def __init__(self, counter, n=None):
        self.counter, self.n, self.i = counter, n, 0

    def __iter__(self):
        return self

    def __next__(self):
        if self.n is not None and self.i >= self.n:
            raise StopIteration
        self.counter[0] += 1
        if self.counter[0] > 500:
            raise StopIteration
        self.i += 1
        return self.i - 1


class _ReIterable:
    """lazy, re-iterable, not sized: __iter__ only (a fresh iterator each time)"""
    def __init__(self, counter, n=None):
        self.counter, self.n = counter, n

    def __iter__(self):
        return _Counting(self.counter, self.n)


class _SizedIterable(_ReIterable):
    """sized but neither Sequence nor Set nor Mapping"""
    def __len__(self):
        return self.n


def source_shapes():
    """[(name, factory(counter) -> object)]: endless lazy shapes, then sized ones of PROBE_LIMIT+1 items."""
    import collections

    def generator(counter):
        def g():
            yield from _Counting(counter)
        return g()
    n = PROBE_LIMIT + 1
    return [
        ("generator", generator),
        ("iterator object", lambda c: _Counting(c)),
        ("re-iterable object without __len__ (endless)", lambda c: _ReIterable(c)),
        ("re-iterable object without __len__ (%d items)" % n, lambda c: _ReIterable(c, n)),
        ("sized iterable that is no Sequence (%d items)" % n, lambda c: _SizedIterable(c, n)),
        ("deque (%d items)" % n, lambda c: collections.deque(range(n))),
        ("range (%d items)" % n, lambda c: range(n)),
        ("dict values view (%d items)" % n, lambda c: {i: i for i in range(n)}.values()),
        ("dict keys view (%d items)" % n, lambda c: {i: i for i in range(n)}.keys()),
    ]


def limits_every_shape(vt, fd, ctx, eng):
    """Does vt.convert limit EVERY source shape that vt.check accepts?  -> (bool, [unlimited shapes], pulls of the generator)"""
    from yaql.language import exceptions, utils
    bad, gen_pulls = [], None
    for name, mk in source_shapes():
        counter = [0]
        try:
            if not vt.check(mk([0]), ctx, eng):
                continue
        except Exception:
            continue
        ok = False
        try:
            it = iter(vt.convert(mk(counter), utils.NO_VALUE, ctx, fd, eng))
            for _ in range(PROBE_LIMIT + 3):
                next(it)
        except exceptions.CollectionTooLargeException:
            ok = counter[0] <= PROBE_LIMIT + 1
        except Exception:       # StopIteration included: PROBE_LIMIT+1 items were handed over without refusal
            ok = False
        if name == "generator":
            gen_pulls = counter[0]
        if not ok:
            bad.append(name)
    return not bad, bad, gen_pulls


def probe_param(fd, key, p, ctx, eng):
    """-> dict(kind, acc_iter, acc_int, acc_str, acc_none, limiting)"""
    from yaql.language import exceptions, utils, yaqltypes
    vt = p.value_type
    if isinstance(vt, yaqltypes.HiddenParameterType):
        kind = "PHidden"
    elif isinstance(vt, yaqltypes.LazyParameterType):
        kind = "PLazy"
    else:
        kind = "PEager"

    def gen():
        yield 1

    def chk(v):
        try:
            return bool(vt.check(v, ctx, eng))
        except Exception:
            return False

    row = {"kind": kind, "acc_iter": chk(gen()), "acc_int": chk(1), "acc_str": chk("a"),
           "acc_none": chk(None), "limiting": False, "pulls": None, "unlimited_shapes": []}
    if kind == "PEager" and row["acc_iter"]:
        # limiting = EVERY source shape the type accepts (generator, iterator object, re-iterable
        # object, sized non-Sequence containers, views) is limited by convert
        row["limiting"], row["unlimited_shapes"], row["pulls"] = limits_every_shape(vt, fd, ctx, eng)
    return row


def registry_rows():
    import yaql
    ctx = yaql.create_context()
    eng = yaql.YaqlFactory().create(options={"yaql.limitIterators": PROBE_LIMIT})
    rows = []
    for depth, name, fd in layers(ctx):
        for key, p in fd.parameters.items():
            r = probe_param(fd, key, p, ctx, eng)
            r.update(fn=name, payload=payload_name(fd), key=key, pname=p.name, depth=depth)
            rows.append(r)
    return rows


# --------------------------------------------------------------------------
# smart-type COMBINATORS over the collection types (host functions may declare a
# parameter as "a collection or a scalar", "a sequence that is also ...", ...)
# --------------------------------------------------------------------------
class CombinatorError(Exception):
    pass


def combinator_classes():
    """Discovered from yaqltypes itself: (aggregations holding several smart types,
    wrappers holding one).  A new combinator class is picked up by its shape."""
    from yaql.language import yaqltypes as yt
    multi, single = [], []
    for name, cls in sorted(vars(yt).items()):
        if not inspect.isclass(cls) or cls.__module__ != yt.__name__:
            continue
        if not issubclass(cls, yt.SmartType) or cls in (yt.SmartType, yt.SmartTypeAggregation):
            continue
        if issubclass(cls, (yt.HiddenParameterType, yt.LazyParameterType)):
            continue
        slots = {sl for k in cls.__mro__ for sl in (getattr(k, "__slots__", ()) or ())}
        if issubclass(cls, yt.SmartTypeAggregation) or any(re.search(r"(^|_)types($|_)", sl) for sl in slots):
            multi.append(cls)
        elif any(sl != "python_type" and re.search(r"(^|_)type($|_)", sl) for sl in slots):
            single.append(cls)
    return multi, single


def combinator_instances():
    """[(label, smart type)]: every discovered combinator over the limiting collection types
    (Iterable / Iterator) and scalars, nullable variants, nested.  Built so that a generator
    object, wherever the combinator accepts one, is matched by a limiting member (the limiting
    member comes first where order could matter).  Fails closed on a combinator that cannot be
    instantiated or exercised."""
    from yaql.language import yaqltypes as yt
    multi, single = combinator_classes()
    if not multi:
        raise CombinatorError("no aggregated smart type found in yaqltypes")
    out = []

    def add(label, mk):
        try:
            out.append((label, mk()))
            return True
        except Exception:
            return False

    for W in single:
        try:
            W(yt.String())
        except Exception as e:
            raise CombinatorError("cannot instantiate %s(String()): %r" % (W.__name__, e))
    for A in multi:
        n = A.__name__
        before = len(out)
        add("%s(Iterable(), Number())" % n, lambda: A(yt.Iterable(), yt.Number()))
        add("%s(Number(), Iterable())" % n, lambda: A(yt.Number(), yt.Iterable()))
        add("%s(String(), Iterable())" % n, lambda: A(yt.String(), yt.Iterable()))
        add("%s(Iterable())" % n, lambda: A(yt.Iterable()))
        add("%s(Iterable(), Iterator())" % n, lambda: A(yt.Iterable(), yt.Iterator()))
        add("%s(Iterator(), Iterable(), nullable=True)" % n, lambda: A(yt.Iterator(), yt.Iterable(), nullable=True))
        add("%s(Iterable(nullable=True), Integer(), nullable=True)" % n,
            lambda: A(yt.Iterable(nullable=True), yt.Integer(), nullable=True))
        add("%s(%s(Iterable(), Number()), String())" % (n, n), lambda: A(A(yt.Iterable(), yt.Number()), yt.String()))
        for B in multi:
            b = B.__name__
            add("%s(%s(Iterable(), Iterator()), Number())" % (n, b), lambda: A(B(yt.Iterable(), yt.Iterator()), yt.Number()))
            add("%s(Number(), %s(Iterable(), Iterator()))" % (n, b), lambda: A(yt.Number(), B(yt.Iterable(), yt.Iterator())))
            add("%s(%s(Iterable()), %s(Iterator(), nullable=True))" % (n, b, b),
                lambda: A(B(yt.Iterable()), B(yt.Iterator(), nullable=True)))
        for W in single:
            w = W.__name__
            add("%s(Iterable(), %s(String()))" % (n, w), lambda: A(yt.Iterable(), W(yt.String())))
            add("%s(Iterable(), %s(Number()))" % (n, w), lambda: A(yt.Iterable(), W(yt.Number())))
        if len(out) - before < 3:
            raise CombinatorError("combinator %s could not be instantiated over the collection types" % n)
    return out


def probe_combinator(label, vt):
    """Behavioural facts of one combinator type (decided by running check / convert)."""
    import yaql
    from yaql.language import exceptions, utils
    ctx = yaql.create_context()
    eng = yaql.YaqlFactory().create(options={"yaql.limitIterators": PROBE_LIMIT})
    qeng = yaql.YaqlFactory().create(options={"yaql.memoryQuota": 200})

    def gen():
        yield 1

    def chk(v):
        try:
            return bool(vt.check(v, ctx, eng))
        except Exception:
            return False

    row = {"label": label, "acc_iter": chk(gen()), "limiting": False, "pulls": None, "unlimited_shapes": [],
           "acc_sized": chk((0,) * (PROBE_LIMIT + 1)), "sized_refused": False, "sized_ok": False, "quota_ok": False}
    if row["acc_iter"]:
        row["limiting"], row["unlimited_shapes"], row["pulls"] = limits_every_shape(vt, None, ctx, eng)
    if row["acc_sized"]:
        try:
            vt.convert((0,) * (PROBE_LIMIT + 1), utils.NO_VALUE, ctx, None, eng)
        except exceptions.CollectionTooLargeException:
            row["sized_refused"] = True
        except Exception:
            pass
        try:
            keep = (0,) * PROBE_LIMIT
            row["sized_ok"] = vt.convert(keep, utils.NO_VALUE, ctx, None, eng) is keep
        except Exception:
            pass
        try:
            vt.convert(tuple(range(100)), utils.NO_VALUE, ctx, None, qeng)
        except exceptions.MemoryQuotaExceededException:
            row["quota_ok"] = True
        except Exception:
            pass
    return row


def combinator_rows():
    rows = [probe_combinator(label, vt) for label, vt in combinator_instances()]
    multi, single = combinator_classes()
    for cls in multi:
        mine = [r for r in rows if r["label"].startswith(cls.__name__ + "(")]
        if sum(1 for r in mine if r["acc_iter"] or r["acc_sized"]) < 2:
            raise CombinatorError("combinator %s accepts no collection in any instance: cannot be exercised" % cls.__name__)
    return rows


def fit(mk, ns=(2, 3, 5, 9, 17, 40, 100)):
    """base, item such that getsizeof(mk(n)) = base + item*n for all probed n >= 1."""
    s = {n: sys.getsizeof(mk(n)) for n in ns}
    item, rem = divmod(s[ns[1]] - s[ns[0]], ns[1] - ns[0])
    base = s[ns[0]] - item * ns[0]
    if rem or any(s[n] != base + item * n for n in ns):
        raise RuntimeError("sys.getsizeof is not linear for %r: %r" % (mk(2), s))
    return base, item


def sizeof_constants():
    one = int("1")          # run-time values: nothing folded or cached by the compiler
    consts = {
        "KTuple": fit(lambda n: (7,) * (n * one)),
        "KList": fit(lambda n: [7] * (n * one)),
        "KAscii": fit(lambda n: chr(97) * (n * one)),
        "KLatin1": fit(lambda n: chr(0xE9) * (n * one)),
        "KUcs2": fit(lambda n: chr(0x394) * (n * one)),
        "KUcs4": fit(lambda n: chr(0x1F600) * (n * one)),
    }
    # the empty values: () , [] and '' (always compact ASCII)
    empties = {"KTuple": sys.getsizeof(() * one), "KList": sys.getsizeof([] * one),
               "KAscii": sys.getsizeof("" * one)}
    for k, e in empties.items():
        if e != consts[k][0]:
            raise RuntimeError("empty %s has size %d, law gives %d" % (k, e, consts[k][0]))
    return consts


def str_kind(s):
    if not s:
        return "KAscii"
    m = max(map(ord, s))
    return "KAscii" if m < 128 else "KLatin1" if m < 256 else "KUcs2" if m < 65536 else "KUcs4"


def generate():
    rows = registry_rows()
    consts = sizeof_constants()
    out = ["(* GENERATED by harness/gen_limitfacts.py from the live yaql registry - do not edit *)",
           "From Coq Require Import List ZArith Bool.",
           "From YV Require Import Common.Corr Model.Limits.",
           "Import ListNotations.",
           "Open Scope Z_scope.",
           "",
           "Definition probe_limit : Z := %d." % PROBE_LIMIT,
           "",
           "Definition gen_base (k : kind) : Z :=",
           "  match k with " + " | ".join("%s => %d" % (k, consts[k][0]) for k in consts) + " end.",
           "Definition gen_item (k : kind) : Z :=",
           "  match k with " + " | ".join("%s => %d" % (k, consts[k][1]) for k in consts) + " end.",
           "Definition gen_sizeof : sizefn := fun k n => gen_base k + gen_item k * n.",
           "",
           "Definition mk (fn payload key : str) (kind : pkind) (it i s n lim : bool) : prow :=",
           "  {| p_fn := fn; p_payload := payload; p_key := key; p_kind := kind; p_acc_iter := it;",
           "     p_acc_int := i; p_acc_str := s; p_acc_none := n; p_limiting := lim |}.",
           "",
           "Definition params : list prow := ["]
    body = []
    for r in rows:
        body.append("  mk %s %s %s %s %s %s %s %s %s  (* %s %s(%s) *)" % (
            gal.s(r["fn"]), gal.s(r["payload"]), gal.s(r["key"]), r["kind"],
            gal.boolean(r["acc_iter"]), gal.boolean(r["acc_int"]), gal.boolean(r["acc_str"]),
            gal.boolean(r["acc_none"]), gal.boolean(r["limiting"]),
            r["fn"].replace("*)", "* )").replace("(*", "( *"), r["payload"], r["key"].replace("*", "VAR")))
    out.append(";\n".join(body))
    out.append("].")
    out.append("")
    crows = combinator_rows()
    multi, single = combinator_classes()
    out.append("(* smart-type combinators found in yaqltypes: aggregations %s; wrappers %s *)"
               % (", ".join(c.__name__ for c in multi), ", ".join(c.__name__ for c in single) or "-"))
    out.append("Definition combinators : list crow := [")
    out.append(";\n".join("  {| c_label := %s; c_acc_iter := %s; c_limiting := %s; c_acc_sized := %s; c_sized_refused := %s; "
                          "c_sized_ok := %s; c_quota_ok := %s |}  (* %s *)" % (
                              gal.s(r["label"]), gal.boolean(r["acc_iter"]), gal.boolean(r["limiting"]),
                              gal.boolean(r["acc_sized"]), gal.boolean(r["sized_refused"]), gal.boolean(r["sized_ok"]),
                              gal.boolean(r["quota_ok"]), r["label"]) for r in crows))
    out.append("].")
    out.append("Example combinators_exercised : (%d <=? Z.of_nat (length (filter c_acc_iter combinators))) = true."
               % (2 * len(multi)))
    out.append("Proof. vm_compute. reflexivity. Qed.")
    out.append("")
    out.append("(* self-checks of the generator's output *)")
    out.append("Example params_nonempty : (200 <=? Z.of_nat (length params)) = true. Proof. reflexivity. Qed.")
    out.append("Example iter_param_present : existsb (fun p => str_eqb (p_fn p) %s && p_limiting p) params = true."
               % gal.s("#iter"))
    out.append("Proof. vm_compute. reflexivity. Qed.")
    out.append("")
    return "\n".join(out)


if __name__ == "__main__":
    sys.stdout.write(generate())
