#!/bin/bash
# Build the hand-written part of the Coq development (Common, Model, Lemmas, Props)
# against facts regenerated from /repo.  Offline; idempotent.
set -e
here="$(cd "$(dirname "$0")" && pwd)"
export PYTHONPATH="${YAQL_REPO:-/repo}:$here/harness"
export PYTHONHASHSEED=0 PYTHONDONTWRITEBYTECODE=1 YAQL_VERIF=1
cd "$here"
/venv/bin/python -W ignore harness/setup_build.py
